#!/bin/bash
# usage: seedrun.sh <ID> <PROP> [<PROP>...] -- applies /verif/seeded/<ID>/patch.diff to /repo, runs the quick checks, reverts
set -u
ID=$1; shift
cd /verif
touch /verif/.seedlock
trap 'rm -f /verif/.seedlock' EXIT
while pgrep -f "python3 /verif/check" > /dev/null; do sleep 5; done
git -C /repo diff --quiet || { echo "/repo is dirty"; exit 2; }
git -C /repo apply /verif/seeded/$ID/patch.diff || exit 2
for P in "$@"; do
  ./check $P ${SEED_TIER:-quick} > /verif/seeded/$ID/check_$P.log 2>&1
  echo "seed=$ID check=$P rc=$? $(grep -c '^VIOLATION' /verif/seeded/$ID/check_$P.log) violation lines; $(grep -h 'kind=' /verif/seeded/$ID/check_$P.log | sed 's/ detail=.*//' | sort | uniq -c | head -5 | tr '\n' ';')"
done
git -C /repo checkout -- .
git -C /repo status --short | head -3
