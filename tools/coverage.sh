#!/bin/bash
# usage: tools/coverage.sh [deadline_s] [ids...]
# Development aid (not a registered check): builds the harness with -Cinstrument-coverage, runs the quick workload of
# every monitor (16 shards each, soft deadline per worker) and reports which functions / lines of /repo were never
# executed by any monitor. Output: /verif/logs/coverage/{summary.txt,functions_never_hit.txt,per_file.txt}
set -u
DL=${1:-25}; shift 2>/dev/null
IDS=${@:-C01 C02 C03 C04 C05 C06 C07 C08 C09 C10 C11 C12 C13 C14 C15 C16 C17 C18 C19 C20}
HARNESS=${HARNESS:-/verif/harness}
cd $HARNESS
BIN=$(rustc +nightly --print sysroot)/lib/rustlib/x86_64-unknown-linux-gnu/bin
OUT=/verif/logs/coverage
rm -rf $OUT; mkdir -p $OUT/raw
export CARGO_NET_OFFLINE=true
RUSTFLAGS="-Cinstrument-coverage" CARGO_TARGET_DIR=target-cov cargo +nightly build --release --offline 2>&1 | tail -2
EXE=target-cov/release/llgv
for id in $IDS; do
  for k in $(seq 0 15); do
    LLVM_PROFILE_FILE=$OUT/raw/$id.$k.profraw timeout 600 $EXE $id --tier quick --seed 1 --shard $k/16 --deadline $DL --out $OUT/raw/$id.$k.json >/dev/null 2>&1 &
  done
  wait
  echo "ran $id"
done
$BIN/llvm-profdata merge -sparse $OUT/raw/*.profraw -o $OUT/all.profdata
$BIN/llvm-cov report $EXE -instr-profile=$OUT/all.profdata --ignore-filename-regex='(\.cargo|/rustc/|/verif/|/harness/src/)' > $OUT/per_file.txt 2>/dev/null
$BIN/llvm-cov export $EXE -instr-profile=$OUT/all.profdata --ignore-filename-regex='(\.cargo|/rustc/|/verif/|/harness/src/)' -format=lcov > $OUT/all.lcov 2>/dev/null
python3 - <<'E'
import re,subprocess,collections
out='/verif/logs/coverage'
fn_hits=collections.defaultdict(int); fn_file={}
cur=None
for l in open(out+'/all.lcov'):
    l=l.strip()
    if l.startswith('SF:'): cur=l[3:]
    elif l.startswith('FN:'):
        ln,name=l[3:].split(',',1); fn_file[name]=(cur,int(ln))
    elif l.startswith('FNDA:'):
        n,name=l[5:].split(',',1); fn_hits[name]+=int(n)
never=[(fn_file[n][0],fn_file[n][1],n) for n in fn_file if fn_hits[n]==0]
never.sort()
dem=subprocess.run(['rustfilt'],input='\n'.join(n for _,_,n in never),capture_output=True,text=True).stdout.split('\n') if False else [n for _,_,n in never]
with open(out+'/functions_never_hit.txt','w') as f:
    for (fl,ln,n) in never:
        f.write(f"{fl}:{ln} {n}\n")
print('functions never hit:',len(never),'of',len(fn_file))
E
rm -rf $OUT/raw/*.profraw
tail -5 $OUT/per_file.txt
