#!/usr/bin/env python3
"""usage: seedprompt.py <PROP> <SEEDID>  -- prints the prompt given to an independent sub-agent.
The prompt contains only the property text (from properties.jsonl), the scratch worktree path and the list
of source locations that earlier seeded changes for this property touched (so that a new one differs)."""
import json, sys, os, re, glob

prop, sid = sys.argv[1], sys.argv[2]
P = None
for l in open('/verif/properties.jsonl'):
    p = json.loads(l)
    if p['id'] == prop:
        P = p
assert P
earlier = []
for d in sorted(glob.glob('/verif/seeded/%s*' % prop)):
    pd = os.path.join(d, 'patch.diff')
    if not os.path.exists(pd):
        continue
    files = set()
    fns = set()
    for line in open(pd, errors='replace'):
        if line.startswith('+++ b/'):
            files.add(line[6:].strip())
        m = re.match(r'^@@[^@]*@@ *(.*)$', line)
        if m and m.group(1).strip():
            fns.add(m.group(1).strip()[:80])
    earlier.append('%s (%s)' % (', '.join(sorted(files)), '; '.join(sorted(fns))))
wt = '/tmp/wt_%s' % sid
print(f"""You are helping to evaluate a verification effort for the Rust project guidance-ai/llguidance (a constrained-decoding
engine: JSON Schema / regex / Lark grammars -> Earley parser + lexer -> per-token masks over a token trie).
Your job is to play the part of a plausible *regression*: a small source change that silently breaks one stated
semantic property of the library while everything still compiles and the existing test-suite still passes.

Your private scratch git worktree of the repository is {wt} (detached HEAD). Work ONLY inside that directory. Do not read or
write /repo, /verif or any other /tmp/wt_* directory; do not look for other people's harnesses - what you write must be your
own independent idea. There is no network: always pass --offline to cargo (CARGO_NET_OFFLINE=true is fine too).

THE PROPERTY (id {P['id']}): {P['title']}

Statement: {P['statement']}

Quantifier: {P['quantifier']['text']}

Why unit tests cannot settle it: {P['why_tests_cant']}

Anchors (where the property lives in the code): {json.dumps(P['anchors'], indent=1)}

WHAT TO PRODUCE

1. A change to the library source (parser/, toktrie/, toktrie_hf_tokenizers/, toktrie_tiktoken/ ...; not tests, not build
   files) that makes the property false for SOME inputs / histories but not for ordinary use. It must look like an
   honest mistake or a well-meant refactoring/optimisation (off-by-one, wrong cache key, missing reset, stale state,
   wrong operator, boundary, two cooperating sites that each look fine alone, ...). It should need something specific to
   manifest: a particular multi-step sequence of operations, an unusual but legal input, a particular vocabulary shape,
   a boundary value, a particular interleaving. Do NOT make a change that the first ordinary use would expose at
   once (e.g. "always return an empty mask"), and do not add `if input == magic` special cases. Keep it small (1-30 lines).
   Earlier experiments for this property already changed these places - choose a DIFFERENT mechanism and location:
{chr(10).join('     - ' + e for e in earlier) or '     (none)'}
2. The change must compile and the offline test-suite must still pass:
     cd {wt} && cargo test -p llguidance --lib --offline && cargo test -p toktrie --offline && cargo test -p toktrie_hf_tokenizers --offline
   (the integration tests in sample_parser need a downloaded tokenizer and fail offline with or without your change; ignore them).
3. A demonstration: a new integration test file {wt}/parser/tests/seeded_demo.rs (it may use only the crates already
   available to the llguidance crate; a single-byte tokenizer is available offline as
   `llguidance::toktrie::ApproximateTokEnv::single_byte_env()`, and you can build any vocabulary you like with
   `toktrie::TokTrie::from(&TokRxInfo, &Vec<Vec<u8>>)` plus a small `TokenizerEnv` impl) that FAILS with your change and
   PASSES without it, run as:
     cd {wt} && cargo test -p llguidance --offline --test seeded_demo
   If the property is about another crate (toktrie, the tokenizer adapters, the C API) the demo may live in that crate's
   tests/ directory instead; say so in demo_cmd.txt. The demo must test the property as stated (not an implementation detail).
   Verify both directions yourself (git stash / git apply -R).
4. Leave in {wt}/SEEDED/ :
     patch.diff     - `git diff` of the library change ONLY (without the demo file and without SEEDED/)
     seeded_demo.rs - a copy of the demo test
     demo_cmd.txt   - last line = the exact command that runs the demo (starting with `cd {wt} && `)
     notes.md       - what the change is, why it breaks the property, what exactly is needed for it to manifest, why the
                      existing tests do not notice
   and leave the worktree with the change APPLIED and the demo file in place (untracked is fine).

Finish with a short report: the files changed, the mechanism in two sentences, what it needs to manifest, and the outputs
(pass/fail lines) of the demo with and without the change and of the unit tests with the change.
""")
