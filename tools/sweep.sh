#!/bin/bash
# usage: tools/sweep.sh quick|thorough [seed] [ids...]  -- runs the registered checks one after another on the current tree
TIER=${1:-quick}; SEED=${2:-1}; shift 2 2>/dev/null
IDS=${@:-C01 C02 C03 C04 C05 C06 C07 C08 C09 C10 C11 C12 C13 C14 C15 C16 C17 C18 C19 C20}
mkdir -p /verif/logs
OUT=/verif/logs/sweep_${TIER}_s${SEED}.txt
: > $OUT
for i in $IDS; do
  while [ -e /verif/.seedlock ]; do sleep 5; done
  t0=$(date +%s)
  VERIF_SEED=$SEED /verif/check $i $TIER > /verif/logs/${i}_${TIER}_s${SEED}.log 2>&1; rc=$?
  t1=$(date +%s)
  cp /verif/evidence/$i.json /verif/logs/${i}_${TIER}_s${SEED}.evidence.json 2>/dev/null
  echo "$i rc=$rc wall=$((t1-t0)) viol=$(grep -c '^VIOLATION' /verif/logs/${i}_${TIER}_s${SEED}.log) known=$(grep -c '^KNOWN-FINDING' /verif/logs/${i}_${TIER}_s${SEED}.log) :: $(grep '^\[check\] C' /verif/logs/${i}_${TIER}_s${SEED}.log | tail -1 | cut -c1-200)" >> $OUT
done
echo DONE >> $OUT
