#!/usr/bin/env python3
"""seedmeta.py <ID> <property> <needs> <detected_by> [<note>] -- writes /verif/seeded/<ID>/meta.json"""
import json, sys, os, re
sid, prop, needs, detected = sys.argv[1:5]
note = sys.argv[5] if len(sys.argv) > 5 else ""
d = f"/verif/seeded/{sid}"
conf = open(os.path.join(d, "confirm.log")).read() if os.path.exists(os.path.join(d, "confirm.log")) else ""
summ = [l for l in conf.splitlines() if l.startswith("SUMMARY")]
checks = {}
for f in sorted(os.listdir(d)):
    m = re.match(r"check_(C\d+)\.log", f)
    if m:
        txt = open(os.path.join(d, f)).read()
        checks[m.group(1)] = {"violation_lines": txt.count("\nVIOLATION") + txt.startswith("VIOLATION"),
                              "kinds": sorted(set(re.findall(r"kind=(\S+)", txt)))[:8],
                              "last_line": txt.strip().splitlines()[-1] if txt.strip() else ""}
meta = {
    "id": sid, "breaks_property": prop,
    "origin": "written by an independent sub-agent that saw only the property text and a scratch worktree of /repo",
    "needs_to_manifest": needs,
    "files": sorted(f for f in os.listdir(d) if not f.startswith("check_")),
    "confirmation": {"how": "tools/seedconfirm.sh: demo run with the patch (must fail), llguidance/toktrie/toktrie_hf_tokenizers unit tests with the patch (must pass), demo with the patch reverted (must pass)",
                     "summary": summ[-1] if summ else "not recorded"},
    "checks_run_against_it": checks,
    "detected_by": detected.split(","),
    "note": note,
}
json.dump(meta, open(os.path.join(d, "meta.json"), "w"), indent=1)
print("wrote", os.path.join(d, "meta.json"))
