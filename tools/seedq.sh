#!/bin/bash
# usage: seedq.sh "<ID> <PROP>..." "<ID> <PROP>..." ...  -- confirm + run each seed, one after another
for spec in "$@"; do
  set -- $spec
  ID=$1; shift
  if [ ! -f /verif/seeded/$ID/confirm.log ]; then /verif/tools/seedconfirm.sh $ID; fi
  /verif/tools/seedrun.sh $ID "$@"
done
echo QUEUE-DONE
