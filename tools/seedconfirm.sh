#!/bin/bash
# usage: seedconfirm.sh <ID>   -- confirms a seeded change living in /tmp/wt_<ID> (demo fails with it, passes without, unit tests pass)
# writes /verif/seeded/<ID>/{patch.diff,demo file,meta.json,confirm.log}
set -u
ID=$1
WT=/tmp/wt_$ID
OUT=/verif/seeded/$ID
mkdir -p $OUT
export CARGO_NET_OFFLINE=true
cd $WT || exit 2
cp SEEDED/patch.diff $OUT/patch.diff
cp SEEDED/notes.md $OUT/notes.md 2>/dev/null
cp SEEDED/demo_cmd.txt $OUT/demo_cmd.txt 2>/dev/null
for f in SEEDED/*.rs; do cp $f $OUT/ 2>/dev/null; done
DEMO=$(cat SEEDED/demo_cmd.txt | tail -1 | sed "s#cd /tmp/wt_$ID *&& *##")
{
echo "== demo command: $DEMO"
echo "== with change"
( eval "$DEMO" ) > $OUT/demo_with.log 2>&1; RC_WITH=$?
echo "rc=$RC_WITH"; grep -E "test result|panicked|FAILED" $OUT/demo_with.log | head -5
echo "== unit tests with change"
cargo test -p llguidance --lib --offline > $OUT/unit_llg.log 2>&1; RC_U1=$?
cargo test -p toktrie --offline > $OUT/unit_tt.log 2>&1; RC_U2=$?
cargo test -p toktrie_hf_tokenizers --offline > $OUT/unit_hf.log 2>&1; RC_U3=$?
grep -h "test result" $OUT/unit_llg.log $OUT/unit_tt.log $OUT/unit_hf.log
echo "unit rc=$RC_U1 $RC_U2 $RC_U3"
echo "== without change (patch reverted)"
git apply -R SEEDED/patch.diff
( eval "$DEMO" ) > $OUT/demo_without.log 2>&1; RC_WITHOUT=$?
echo "rc=$RC_WITHOUT"; grep -E "test result|panicked|FAILED" $OUT/demo_without.log | head -5
git apply SEEDED/patch.diff
echo "SUMMARY id=$ID demo_with_rc=$RC_WITH demo_without_rc=$RC_WITHOUT unit_rc=$RC_U1,$RC_U2,$RC_U3"
} > $OUT/confirm.log 2>&1
tail -1 $OUT/confirm.log
