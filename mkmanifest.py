#!/usr/bin/env python3
"""Regenerates MANIFEST.json from the table below (kept next to props.py)."""
import json

CHECKS = {
    "C01": ("runtime monitor: redundant-path comparison (mask vs validate vs commit on clones) over random walks",
            "At every state of thousands of generated histories the mask is compared, token id by token id, with validate_tokens and with a real commit on a clone; validate_tokens(seq) with one-by-one commits; EOS with is_accepting. Held on the executions reported in the evidence, nothing more.",
            "Trusts clone independence (decided by C14) and the harness vocabularies/generators; reach is the workload's reach."),
    "C02": ("runtime monitor: differential execution token engine vs independent single-byte engine, V-loop over every token",
            "For every visited state and every token of the vocabulary, acceptability as a token is compared with acceptability of its bytes one at a time on an independently built single-byte engine; random re-segmentations of the same bytes must give bit-identical masks.",
            "Special tokens excluded (C19). The byte engine is the same code base configured differently, so a defect common to both paths is invisible here (C04/C05 cover that with independent models)."),
    "C04": ("runtime monitor: engine vs independent reference DFA, exhaustive DFS over small alphabets + V-loops",
            "The engine's next-byte sets and acceptance are compared with a reference DFA built from the harness's own regex AST at every node of an exhaustive enumeration of byte strings over a small alphabet, and token masks over multi-byte vocabularies with delta* of the DFA.",
            "Oracle = ref_dfa (cross-checked against the regex crate by `llgv selftest`); generated fragment only; bounded length."),
    "C05": ("runtime monitor: engine vs independent byte-level Earley recogniser, exhaustive DFS over the grammar alphabet + V-loops",
            "Same scheme as C04 with a textbook Earley recogniser on the harness's own copy of each grammar (random EBNF, hand-written classics, parametric templates).",
            "Oracle = ref_earley; terminals restricted to the non-confusable class the property names; bounded length."),
    "C08": ("runtime monitor: exhaustive bound grid, acceptance of decimal literals vs exact decimal arithmetic",
            "Exhaustive grid of bound pairs x inclusive/exclusive x integer/number x multipleOf; every literal in and around the interval is fed to the single-byte engine and compared with an exact predicate on the decimal texts; compile error <=> exact emptiness. Known numeric defects are reported as KNOWN-FINDING by verified failure pattern.",
            "Oracle = harness decimal arithmetic (i128); `5.0` under integer schemas excluded as unspecified."),
    "C09": ("runtime monitor: exhaustive (m,n) enumeration, every count probed on the single-byte engine",
            "All 0<=m<=n<=N at rule / terminal / regex level and for the JSON size keywords; for every count the closer and the next element are allowed exactly when the bound says so.",
            "Single-byte vocabulary; bounded N (18/44 Lark, 13/34 JSON)."),
    "C10": ("runtime monitor: differential execution sliced vs unsliced factory in lock-step",
            "Two engines differing only in the slice list are driven with the same tokens; masks must be bit-identical at every state; evidence counts states where a slice was really applied.",
            "ParserFactory::new(.., []) is the reference path."),
    "C11": ("runtime monitor: query-interleaving program vs fresh replay engines (+ bias-cache hit counter hook)",
            "Random programs of commits, rollbacks and read-only queries; every answer is compared with that of a freshly built engine that replayed the same tokens and is asked only that query; mask twice / after invalidate.",
            "Fresh replay engine is the reference; hook H3 only counts cache hits."),
    "C12": ("runtime monitor: rollback programs vs fresh replay engines, lock-step continuation",
            "After every rollback/reset in random programs all observables are compared with a fresh replay engine and both are then driven in lock-step comparing every mask.",
            "Fresh replay engine is the reference."),
    "C13": ("runtime monitor: forced bytes replayed on an independent no-forcing byte engine; ff tokens / Constraint / process_prompt identities",
            "Every byte reported as forced must be the only byte an independent single-byte engine allows there; ff tokens decode to a prefix of them, commit, and leave the same acceptable continuations; prompt processing satisfies decode(P')++pending == decode(P)++forced.",
            "The byte engine is the reference for 'only byte allowed'."),
    "C03": ("runtime monitor: dead-end detector at every visited state + liveness against reference DFA / Earley + bounded-progress roll-outs",
            "Every state of extending-then-closing walks over productive grammars is monitored for an empty mask / no-extension stop in a non-accepting state; where a reference model exists the byte history must be live in it; the 'eventually' half is restated as a closing roll-out reaching a stop within 400 steps.",
            "TokenParser API used directly so that StopReason is visible; no finite run decides the unbounded liveness claim, which is why it is restated as bounded progress."),
    "C06": ("runtime monitor: outputs generated through the masks judged by an exact-arithmetic validator (+ jsonschema crate), plus mutated-instance negative probes",
            "Complete outputs produced through the masks are parsed strictly and validated against the schema by the harness validator (decider for numbers and duplicate keys) with the jsonschema crate as second opinion; mutated constructive instances that are invalid must not be accepted.",
            "Oracle = ref_json + jsonschema 0.29; disagreements are inconclusive; hostname length limit not asserted."),
    "C07": ("runtime monitor: constructive valid instances, standard serialisation, token-by-token acceptance",
            "Instances accepted by both validators are serialised the standard way (with the whitespace the options allow), tokenised three different ways over three kinds of vocabulary and must be accepted token by token and end accepting.",
            "Only the fully supported keyword subset is generated; instances both validators accept."),
    "C14": ("runtime monitor: exhaustive interleaving enumeration of clone op lists + real threads with injected yields at the shared-lexer lock (hook H1) + rayon batch masks; TSan build in thorough",
            "All interleavings of short per-clone op lists are executed on one thread and every result compared with a private reference; 2..16 real threads run op lists with seeded yields around the shared-lexer mutex and are checked offline; llg_par_compute_mask batches are compared with sequential masks.",
            "Whole API calls are atomic w.r.t. the shared lexer (single mutex); evidence reports lock-owner switches actually observed."),
    "C15": ("runtime monitor: hook H2 delivers the grammar before/after optimisation; bounded-language equality by independent Kleene iteration",
            "For every grammar compiled through the real entry point the set of all terminal sequences up to length 6 (special symbols as bracket pseudo-terminals, parametric rules over reachable values) is computed before and after optimisation and must be identical, as must the list of special symbols.",
            "Bounded length (6, lowered to 3 under a set-size cap, below that inconclusive)."),
    "C16": ("runtime monitor: model-based testing of trie / token sets / adapters against naive models; overflow+debug-assert build; Miri on the toktrie-only part",
            "Random vocabularies and op sequences are executed against Vec/BTreeSet models; the trie walk is compared with per-token evaluation under random table DFAs with a stack monitor; tokenizer.json and tiktoken adapters are compared with independently computed token bytes; the same scenarios run with debug assertions and under Miri.",
            "Miri covers the toktrie-only scenarios (the HF adapter pulls C code)."),
    "C17": ("runtime monitor: C functions mirrored step by step on Rust objects, canary-guarded buffers of many lengths, AddressSanitizer build",
            "llg_* calls (44 of the 46 exported functions: constraint, matcher, tokenizer v1/v2/callback, tokenize/decode/stringify, validate_grammar, stop controller) are mirrored on Rust Constraint/Matcher/StopController objects; destination buffers of many lengths carry canaries and a fill pattern; the same workload runs under AddressSanitizer so that reads outside the engine's mask abort.",
            "The C API is exercised from Rust (no C compiler in the loop)."),
    "C18": ("runtime monitor: protocol state machine over Matcher/Constraint call sequences incl. illegal calls; reference stop-sequence model over a reference DFA",
            "Stop decisions are compared with a reference TokenParser driven without check_stop; text at stop must be complete for an independent byte engine; illegal calls on clones must fail for good or change nothing; Constraint runs under tight per-step limits must report errors that stay errors, never a stop on incomplete text; the stop controller is compared with an earliest-match model.",
            "Ambiguous stop matches (several lengths ending at the same earliest position) are skipped."),
    "C19": ("runtime monitor: special-id scan of every mask of text grammars; token-reference grammars vs harness set model; marker tokenisation checks",
            "No special id may appear in any mask of a text grammar; masks at <name>/<[..]> positions must equal the denoted sets exactly; names in plain text never tokenise to specials while marker forms do.",
            "HF added-token matching is adapter policy and not asserted."),
    "C20": ("runtime monitor: hostile-input workers with RLIMIT_AS / per-case RLIMIT_CPU, crash attribution by journal, overflow-checks vs release join (+ ASan in thorough)",
            "~30 classes of hostile inputs are built and driven in worker processes; any death by signal, stack overflow, allocation abort or CPU-budget overrun, any panic in a legal call, any answer from a failed engine, and any input on which the overflow-checks build panics with an arithmetic overflow while the release build returns an engine is a violation.",
            "CPU budget 40 s (quick) / 240 s (thorough) per case stands in for 'loops without bound'."),
}

LEVEL = {k: "exploration" for k in CHECKS}

import subprocess
FIXES = [l.split()[0] for l in subprocess.run(["git", "-C", "/repo", "log", "--oneline"], capture_output=True, text=True).stdout.splitlines() if " fix:" in l]


def main():
    props = [json.loads(l) for l in open("properties.jsonl")]
    man = {
        "version": 1,
        "setup_cmd": "./setup.sh",
        "hooks": {
            "guard": "cargo feature `verif_hooks` of the llguidance crate (parser/Cargo.toml), off by default",
            "enable": "the harness crate depends on llguidance with features=[\"verif_hooks\"] (path dependency on /repo/parser), so every check build has the hooks on",
            "baseline_off_cmd": "cd /repo && cargo test --workspace --no-fail-fast --offline",
            "source_commits": ["79dec15"],
            "fix_commits": FIXES,
            "add_only": True,
        },
        "engines": [{
            "name": "llgv", "path": "harness/", "serves_properties": sorted(CHECKS),
            "kind_free_text": "Rust harness crate (path deps on /repo crates): workloads, reference models (byte DFA, byte Earley, exact JSON-Schema validator) and monitors; built per variant (rel/chk/asan/tsan), sharded, merged and judged by ./check (python3)",
        }],
        "checks": [],
        "not_applicable": [],
        "notes": "Technique family: runtime monitoring and sanitizers. See DESIGN.md. Genuine defects: known_findings.json.",
    }
    for p in props:
        pid = p["id"]
        if pid in CHECKS:
            tech, text, note = CHECKS[pid]
            man["checks"].append({
                "property_id": pid,
                "quick_cmd": f"./check {pid} quick",
                "thorough_cmd": f"./check {pid} thorough",
                "evidence_file": f"evidence/{pid}.json",
                "replay_cmd_template": f"./check {pid} quick --replay {{path}}",
                "engine": "llgv",
                "level_claimed": {"category": LEVEL[pid], "text": text, "design_ref": f"DESIGN.md section 5, {pid}"},
                "level_note": note,
                "technique": tech,
            })
        else:
            man["not_applicable"].append({"property_id": pid, "reason": "monitor still under construction in this session; not claimed until its check is registered"})
    json.dump(man, open("MANIFEST.json", "w"), indent=1)

if __name__ == "__main__":
    main()
