//! C10: the slicing optimisation never changes a mask. Two factories on one TokEnv (slices S vs
//! no slices), same grammar, same history => bit-identical masks at every state.

use crate::ctx::Ctx;
use crate::engine::*;
use crate::pool::{self, VKind};
use crate::report::bytes_dbg;
use crate::rng::{fnv, Rng};
use crate::walker;
use serde_json::json;

fn slice_grammars(rng: &mut Rng) -> GCase {
    let ml = *rng.pick(&[3u32, 9, 10, 11, 12, 29, 30, 31, 32, 64]);
    let mn = rng.below(4);
    if rng.chance(1, 7) {
        // a lazy lexeme and a greedy lexeme that contains a slice regex alive in the SAME lexer state
        let lazy = *rng.pick(&["/[a-z]*q/", "/[a-z ]*;/", "/.*x/", "/[^\"]*zz/", "/[a-z]{0,6}[0-9]/"]);
        let follow = *rng.pick(&["\"!\"", "\"\\\"\"", "\"0\"", "\"q\""]);
        let text = *rng.pick(&["/[^\"\\\\\\x00-\\x1F\\x7F]+/", "/[a-z]+/", "/[a-zA-Z0-9 ]+/", "/[^<>]+/", "/[^\"\\\\\\x00-\\x1F\\x7F]{1,10}/"]);
        let body = match rng.below(3) {
            0 => format!("start: head {follow} | text\n"),
            1 => format!("start: \"<\" (head {follow} | text) \">\"\n"),
            _ => format!("start: head {follow} text | text\n"),
        };
        return GCase::lark("sl_lazy_and_greedy", &format!("{body}head[lazy]: {lazy}\ntext: {text}\n")).tag("slice_family");
    }
    match rng.below(14) {
        0 => GCase::json("sl_maxlen", &format!(r#"{{"type":"string","maxLength":{ml}}}"#)),
        1 => GCase::json("sl_minmax", &format!(r#"{{"type":"string","minLength":{mn},"maxLength":{ml}}}"#)),
        2 => GCase::json("sl_obj", &format!(r#"{{"type":"object","properties":{{"name":{{"type":"string","maxLength":{ml}}},"tag":{{"type":"string"}}}},"required":["name"]}}"#)),
        3 => GCase::json("sl_pattern", r#"{"type":"string","pattern":"^[a-z ]{0,12}[0-9]?$"}"#),
        4 => GCase::json("sl_pattern2", r#"{"type":"string","pattern":"^[^0-9\"\\\\]*$","maxLength":14}"#),
        5 => GCase::json("sl_format", r#"{"type":"object","properties":{"d":{"type":"string","format":"date"},"h":{"type":"string","format":"hostname"}}}"#),
        6 => GCase::json("sl_addl", r#"{"type":"object","properties":{"alpha":{"type":"integer"},"beta":{"type":"string"}},"additionalProperties":{"type":"string","maxLength":10}}"#),
        7 => GCase::json("sl_enumkeys", r#"{"type":"object","properties":{"the":{"enum":["the quick","the","brown fox"]},"quick":{"type":"string","maxLength":9}},"additionalProperties":false}"#),
        8 => GCase::lark("sl_lazy", "start: body \"\\\"\" tail\nbody[lazy]: /[^\"]*x/\ntail: /[a-z ]{0,10}/\n"),
        9 => GCase::lark("sl_class", &format!("start: \"<\" W \">\" W2\nW: /[a-zA-Z ]{{1,{ml}}}/\nW2: /[^<>\"\\\\\\x00-\\x1f\\x7f]+/\n")),
        10 => GCase::lark("sl_str", "start: \"\\\"\" S \"\\\"\"\nS: /([^\"\\\\\\x00-\\x1F\\x7F]|\\\\[\"\\\\bfnrt])*/\n"),
        11 => GCase::json("sl_arr", &format!(r#"{{"type":"array","items":{{"type":"string","maxLength":{ml}}},"maxItems":3}}"#)),
        12 => GCase::json("sl_any", r#"{"type":"object"}"#),
        _ => GCase::json("sl_ws", r#"{"type":"object","properties":{"a":{"type":"array","items":{"type":"number"}}},"x-guidance":{"whitespace_pattern":"[ \n]{0,3}"}}"#),
    }
    .tag("slice_family")
}

fn random_slices(rng: &mut Rng) -> Vec<String> {
    let pool = [
        r#"[a-z]{1,4}"#,
        r#"[a-z]{1,10}"#,
        r#"[a-z]+"#,
        r#"[a-zA-Z]+"#,
        r#"[a-zA-Z0-9 ]+"#,
        r#"[0-9]{1,3}"#,
        r#"[0-9]+"#,
        r#"[\x20\x0A\x0D\x09]+"#,
        r#"[^"\\\x00-\x1F\x7F]{1,5}"#,
        r#"[^"\\\x00-\x1F\x7F]{1,10}"#,
        r#"[^"\\\x00-\x1F\x7F]{1,30}"#,
        r#"[^"\\\x00-\x1F\x7F]+"#,
        r#" ?[a-z]+"#,
        r#"[^<>]+"#,
    ];
    let n = 1 + rng.below(5);
    let mut v: Vec<String> = vec![];
    for _ in 0..n {
        let s = rng.pick(&pool).to_string();
        if !v.contains(&s) {
            v.push(s);
        }
    }
    v
}

fn run_case(ctx: &mut Ctx, idx: u64) {
    let mut rng = ctx.case_rng(idx);
    let g = if rng.chance(3, 5) {
        slice_grammars(&mut rng)
    } else {
        let pi = if rng.chance(1, 2) { rng.below(pool::n_corpus() as usize) as u64 } else { 1_000_000 + idx };
        pool::grammar(&mut rng, pi)
    };
    let vk = match rng.below(6) {
        0 => VKind::Vsyn,
        1 => VKind::VsynC,
        2 => VKind::Bpe(0),
        3 | 4 => VKind::Bpe(1),
        _ => VKind::Bpe(if ctx.thorough { 2 } else { 1 }),
    };
    let v = pool::make_vocab(&mut rng, &g, vk);
    let slices = if rng.chance(1, 2) { None } else { Some(random_slices(&mut rng)) };
    let fs = match factory(&v, &FactoryOpts { slices: slices.clone(), ..Default::default() }) {
        Ok(f) => f,
        Err(_) => {
            ctx.rep.inc("slice_list_rejected_by_factory");
            return;
        }
    };
    let Ok(f0) = factory_noslice(&v) else { return };
    let (Ok(mut a), Ok(mut b)) = (matcher(&fs, &g), matcher(&f0, &g)) else {
        ctx.rep.inc("compile_errors");
        return;
    };
    if a.is_error() != b.is_error() {
        let d = json!({"case": pool::describe(ctx, &g, &v), "slices": slices, "sliced_error": a.get_error(), "plain_error": b.get_error()});
        let rp = ctx.replay(idx);
        ctx.rep.violation("compile_result_differs", &g.tags, d, rp);
        return;
    }
    if a.is_error() {
        ctx.rep.inc("compile_errors");
        return;
    }
    ctx.rep.inc("cases");
    let steps = ctx.pick(24, 60);
    let mut hist = vec![];
    let mut applied_in_case = 0u64;
    for step in 0..steps {
        if a.is_stopped() || b.is_stopped() {
            if a.is_stopped() != b.is_stopped() || a.stop_reason() != b.stop_reason() {
                let d = json!({"case": pool::describe(ctx, &g, &v), "slices": slices, "history": hist, "sliced": format!("{:?}", a.stop_reason()), "plain": format!("{:?}", b.stop_reason())});
                let rp = ctx.replay(idx);
                ctx.rep.violation("stop_differs", &g.tags, d, rp);
            }
            break;
        }
        let ma = a.compute_mask();
        let mb = b.compute_mask();
        let (ma, mb) = match (ma, mb) {
            (Ok(x), Ok(y)) => (x, y),
            (Err(_), Err(_)) => {
                if is_resource_stop(&a) || is_resource_stop(&b) {
                    ctx.rep.inconclusive("resource_stop");
                }
                break;
            }
            _ => {
                if is_resource_stop(&a) || is_resource_stop(&b) || resource_stop_on_replay(&fs, &g, &hist) || resource_stop_on_replay(&f0, &g, &hist) {
                    // a resource limit hit by one configuration only is not a mask difference
                    ctx.rep.inconclusive("resource_stop_one_side");
                    break;
                }
                let d = json!({"case": pool::describe(ctx, &g, &v), "slices": slices, "history": hist, "sliced_stop": format!("{:?}", a.stop_reason()), "plain_stop": format!("{:?}", b.stop_reason())});
                let rp = ctx.replay(idx);
                ctx.rep.violation("mask_error_on_one_side", &g.tags, d, rp);
                return;
            }
        };
        ctx.rep.inc("states");
        let applied = a.last_step_stats().map(|s| s.slices_applied).unwrap_or(0) as u64;
        ctx.rep.add("slices_applied", applied);
        if !mask_eq(&ma, &mb, v.n()) || ma.len() != mb.len() {
            let d = json!({"case": pool::describe(ctx, &g, &v), "slices": slices, "history": hist, "history_bytes": bytes_dbg(&v.trie().decode_raw(&hist)),
                "slices_applied": applied, "diff(token,sliced,plain)": mask_diff(&ma, &mb, v.n()).iter().map(|(t, x, y)| json!([t, bytes_dbg(&v.words[*t as usize]), x, y])).collect::<Vec<_>>()});
            let rp = ctx.replay(idx);
            ctx.rep.violation("sliced_mask_differs", &g.tags, d, rp);
            return;
        }
        // raw words identical too (bits beyond vocab)
        if ma.as_slice() != mb.as_slice() {
            let d = json!({"case": pool::describe(ctx, &g, &v), "slices": slices, "history": hist});
            let rp = ctx.replay(idx);
            ctx.rep.violation("sliced_mask_raw_words_differ", &g.tags, d, rp);
            return;
        }
        if applied > 0 {
            applied_in_case += 1;
            ctx.rep.inc("states_with_slice_applied");
            ctx.rep.nontrivial(g.hash() ^ fnv(&hist.iter().flat_map(|t: &u32| t.to_le_bytes()).collect::<Vec<u8>>()).rotate_left(11) ^ fnv(v.name.as_bytes()) ^ fnv(format!("{slices:?}").as_bytes()));
        }
        if rng.chance(1, 4) {
            let (x, y) = (a.is_accepting().ok(), b.is_accepting().ok());
            let (fx, fy) = (a.deep_clone().compute_ff_tokens(), b.deep_clone().compute_ff_tokens());
            if x != y || fx != fy {
                let d = json!({"case": pool::describe(ctx, &g, &v), "slices": slices, "history": hist, "accepting": [x, y], "ff": [fx, fy]});
                let rp = ctx.replay(idx);
                ctx.rep.violation("sliced_query_differs", &g.tags, d, rp);
                return;
            }
        }
        // stay inside strings longer: extending policy most of the time
        let pol = if step * 4 > steps * 3 { walker::Policy::Closing } else if rng.chance(3, 4) { walker::Policy::Extending } else { walker::Policy::Uniform };
        let Some(t) = walker::choose(&mut rng, &ma, &v, pol) else { break };
        let (ra, rb) = (a.consume_token(t).is_ok(), b.consume_token(t).is_ok());
        if ra != rb {
            let d = json!({"case": pool::describe(ctx, &g, &v), "slices": slices, "history": hist, "token": t, "sliced_ok": ra, "plain_ok": rb});
            let rp = ctx.replay(idx);
            ctx.rep.violation("commit_differs", &g.tags, d, rp);
            return;
        }
        if !ra {
            break;
        }
        hist.push(t);
    }
    if applied_in_case > 0 {
        ctx.rep.sample(json!({"grammar": g.text.chars().take(160).collect::<String>(), "vocab": v.name, "slices": slices, "states_with_slice_applied": applied_in_case, "history_bytes": bytes_dbg(&v.trie().decode_raw(&hist)).chars().take(120).collect::<String>()}));
    }
}

pub fn run(ctx: &mut Ctx) {
    let n_cases = ctx.pick(50000, 1000000);
    for idx in 0..n_cases {
        if !ctx.mine(idx) {
            continue;
        }
        if ctx.out_of_time() {
            break;
        }
        run_case(ctx, idx);
    }
}
