//! Self-tests of the oracles themselves (reference DFA vs the `regex` crate, decimal
//! arithmetic, JSON parser) so that a broken oracle is noticed before it judges the engine.

use crate::ctx::Ctx;
use crate::gen_regex::RxGen;
use crate::ref_dfa::Dfa;
use crate::ref_json::{Dec, JParser};
use serde_json::json;

pub fn run(ctx: &mut Ctx) {
    // 1. ref_dfa vs regex crate on the plain fragment
    let gen = RxGen { allow_algebra: false, allow_raw_not: false, max_depth: 3 };
    for i in 0..400u64 {
        let mut rng = ctx.case_rng(i);
        let rx = gen.gen(&mut rng);
        let txt = rx.to_regex();
        let Ok(d) = Dfa::from_rx(&rx) else {
            ctx.rep.inc("dfa_too_big");
            continue;
        };
        let Ok(re) = regex::bytes::Regex::new(&format!("^(?:{txt})$")) else {
            ctx.rep.violation("selftest_regex_syntax", &[], json!({"rx": txt}), json!(null));
            continue;
        };
        let mut chars = vec![];
        rx.chars(&mut chars);
        chars.extend(['a', 'b', '\n', '\u{e9}', 'K', '\u{212a}', 'S', '\u{17f}']);
        for _ in 0..60 {
            let n = rng.below(7);
            let mut s = String::new();
            for _ in 0..n {
                s.push(*rng.pick(&chars));
            }
            let mut bytes = s.into_bytes();
            if rng.chance(1, 6) && !bytes.is_empty() {
                let k = rng.below(bytes.len());
                bytes.truncate(k); // may cut inside a UTF-8 char
            }
            ctx.rep.inc("dfa_vs_regex_checks");
            if d.matches(&bytes) != re.is_match(&bytes) {
                ctx.rep.violation("selftest_dfa_vs_regex", &[], json!({"rx": txt, "input": crate::report::bytes_dbg(&bytes), "dfa": d.matches(&bytes)}), json!(null));
            }
        }
    }
    // 2. decimals
    let cases = [("1.50", "1.5", 0), ("-0.0", "0", 0), ("1e2", "100", 0), ("0.3", "0.30000000000000004", -1), ("-2", "-10", 1), ("1e-3", "0.001", 0), ("12", "2", 1)];
    for (a, b, c) in cases {
        let (x, y) = (Dec::parse(a).unwrap(), Dec::parse(b).unwrap());
        let got = x.cmp(&y) as i32;
        if got != c {
            ctx.rep.violation("selftest_dec_cmp", &[], json!({"a": a, "b": b, "got": got}), json!(null));
        }
        ctx.rep.inc("dec_checks");
    }
    let mult = [("0.3", "0.1", true), ("0.7", "0.1", true), ("0.07", "0.01", true), ("1", "0.3", false), ("4295229443", "65537", true), ("10", "2.5", true), ("7.5", "2.5", true), ("7.4", "2.5", false), ("1e3", "7", false), ("0", "3", true)];
    for (a, m, want) in mult {
        let got = Dec::parse(a).unwrap().is_multiple_of(&Dec::parse(m).unwrap());
        if got != Some(want) {
            ctx.rep.violation("selftest_dec_mult", &[], json!({"a": a, "m": m, "got": format!("{got:?}")}), json!(null));
        }
        ctx.rep.inc("dec_checks");
    }
    // 3. JSON parser strictness
    for (t, ok) in [("{\"a\":1,\"a\":2}", true), ("[1,]", false), ("01", false), ("-0", true), ("\"\\ud800\"", false), ("\"\\ud83d\\ude00\"", true), ("{\"a\" : [ 1 , 2 ] }", true), ("\"\t\"", false), ("1.", false), ("1e5", true), ("nul", false)] {
        if JParser::parse(t.as_bytes()).is_ok() != ok {
            ctx.rep.violation("selftest_json_parse", &[], json!({"text": t}), json!(null));
        }
        ctx.rep.inc("json_checks");
    }
    // 4. formats
    for (f, s, ok) in [
        ("date", "2024-02-29", true),
        ("date", "2023-02-29", false),
        ("time", "23:59:60Z", true),
        ("time", "12:00:60Z", false),
        ("time", "01:29:60+01:30", true),
        ("date-time", "2020-12-31T23:59:59.5z", true),
        ("duration", "P1Y2M3DT4H", true),
        ("duration", "P1Y3D", false),
        ("duration", "PT", false),
        ("duration", "P2W", true),
        ("ipv4", "1.2.3.04", false),
        ("ipv6", "::1", true),
        ("ipv6", "1:2:3:4:5:6:7::", true),
        ("ipv6", "1:2:3:4:5:6:7:8:9", false),
        ("ipv6", "1::2::3", false),
        ("uuid", "550e8400-e29b-41d4-a716-446655440000", true),
        ("hostname", "a-.com", false),
        ("email", "a.b@c.d", true),
        ("email", "a..b@c.d", false),
        ("uri", "http://x/y?z#f", true),
        ("uri", "//x", false),
    ] {
        if crate::formats::check(f, s) != Some(ok) {
            ctx.rep.violation("selftest_format", &[], json!({"format": f, "s": s}), json!(null));
        }
        ctx.rep.inc("format_checks");
    }
    for i in 0..10 {
        ctx.rep.nontrivial(i);
    }
}
