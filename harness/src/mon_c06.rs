//! C06: every complete output admitted under a JSON-schema constraint validates against the
//! schema (Draft 2020-12, formats asserted), or the schema is rejected with an error.

use crate::ctx::Ctx;
use crate::engine::*;
use crate::gen_json::{InstGen, JsonGen};
use crate::judge::{Judge, Judgement};
use crate::pool::{self, VKind};
use crate::ref_json::{keyword_kinds, J};
use crate::report::bytes_dbg;
use crate::rng::{fnv, Rng};
use crate::vocab::{self, Vocab};
use crate::walker::{self, Policy};
use llguidance::Matcher;
use serde_json::{json, Value};

/// sprinkle keywords the engine does not implement: it must refuse them (or still be sound)
fn add_unsupported(rng: &mut Rng, s: &mut Value) {
    let Some(o) = s.as_object_mut() else { return };
    match rng.below(6) {
        0 => {
            o.insert("not".into(), json!({"type": "null"}));
        }
        1 => {
            o.insert("uniqueItems".into(), json!(true));
        }
        2 => {
            o.insert("if".into(), json!({"type": "integer"}));
            o.insert("then".into(), json!({"minimum": 100}));
        }
        3 => {
            o.insert("contains".into(), json!({"type": "integer"}));
        }
        4 => {
            o.insert("propertyNames".into(), json!({"maxLength": 1}));
        }
        _ => {
            o.insert("dependentRequired".into(), json!({"a": ["zq"]}));
        }
    }
}

fn mutate(rng: &mut Rng, v: &Value) -> Value {
    match v {
        Value::Number(n) => {
            if let Some(i) = n.as_i64() {
                match rng.below(5) {
                    0 => json!(i + 1),
                    1 => json!(i - 1),
                    2 => json!(i * 10 + 1),
                    3 => json!(i as f64 + 0.5),
                    _ => json!(-i - 1),
                }
            } else {
                let f = n.as_f64().unwrap_or(0.0);
                match rng.below(3) {
                    0 => json!(((f + 0.01) * 100.0).round() / 100.0),
                    1 => json!(((f - 0.01) * 100.0).round() / 100.0),
                    _ => json!(f * 10.0),
                }
            }
        }
        Value::String(s) => {
            let mut t: Vec<char> = s.chars().collect();
            match rng.below(4) {
                0 => t.push('x'),
                1 if !t.is_empty() => {
                    t.pop();
                }
                2 if !t.is_empty() => {
                    let i = rng.below(t.len());
                    t[i] = if t[i] == '0' { 'Z' } else { '0' };
                }
                _ => {
                    for _ in 0..7 {
                        t.push('\u{e9}');
                    }
                }
            }
            Value::String(t.into_iter().collect())
        }
        Value::Array(a) => {
            let mut b = a.clone();
            match rng.below(4) {
                0 if !b.is_empty() => {
                    b.pop();
                }
                1 if !b.is_empty() => {
                    let l = b[b.len() - 1].clone();
                    b.push(l);
                }
                2 if !b.is_empty() => {
                    let i = rng.below(b.len());
                    b[i] = mutate(rng, &a[i]);
                }
                _ => b.push(Value::Null),
            }
            Value::Array(b)
        }
        Value::Object(o) => {
            let mut m = o.clone();
            let keys: Vec<String> = m.keys().cloned().collect();
            match rng.below(4) {
                0 if !keys.is_empty() => {
                    let k = rng.pick(&keys).clone();
                    m.shift_remove(&k);
                }
                1 if !keys.is_empty() => {
                    let k = rng.pick(&keys).clone();
                    let nv = mutate(rng, &m[&k]);
                    m.insert(k, nv);
                }
                2 => {
                    m.insert("zz_extra".into(), json!("x"));
                }
                _ if !keys.is_empty() => {
                    let k = rng.pick(&keys).clone();
                    m.insert(k, Value::Null);
                }
                _ => {
                    m.insert("q".into(), Value::Null);
                }
            }
            Value::Object(m)
        }
        Value::Bool(b) => {
            if rng.chance(1, 2) {
                json!(!b)
            } else {
                json!(0)
            }
        }
        Value::Null => json!("null"),
    }
}

/// failure family of an invalid output; format families are assigned only when verified
fn classify_invalid(why: &str) -> String {
    if why.starts_with("not well-formed") {
        return "output_not_wellformed_json".into();
    }
    // the innermost reason is at the end of the " > " chain; only single-cause chains are classified
    let leaf = why.rsplit(" > ").next().unwrap_or(why);
    // inside an anyOf the leaf is followed by "]" or " | other reasons"
    let leaf = leaf.split(" | ").next().unwrap_or(leaf).trim_end_matches(']');
    if let Some(rest) = leaf.strip_prefix("format ") {
        if let Some((fmt, val)) = rest.split_once(" :: ") {
            if fmt == "time" || fmt == "date-time" {
                // leap second at a time that is not 23:59:60 UTC: the same string with :59 is fine
                if let Some(p) = val.rfind(":60") {
                    let fixed = format!("{}:59{}", &val[..p], &val[p + 3..]);
                    if crate::formats::check(fmt, &fixed) == Some(true) {
                        return "format_leap_second_at_arbitrary_time".into();
                    }
                }
            }
            if fmt == "date" || fmt == "date-time" {
                // 29 February of a non-leap year: the same string in year 2024 is fine
                if val.len() >= 10 && &val[4..10] == "-02-29" {
                    let fixed = format!("2024{}", &val[4..]);
                    if crate::formats::check(fmt, &fixed) == Some(true) {
                        return "format_date_feb29_in_non_leap_year".into();
                    }
                }
            }
            return format!("output_violates_format_{fmt}");
        }
    }
    "output_does_not_validate".into()
}

/// Pattern check that is independent of how deep the format sits in the schema: the output becomes
/// valid when nothing but the leap second (:60 -> :59) / the day (02-29 -> 02-28) is changed.
fn classify_by_repair(judge: &Judge, out: &[u8]) -> Option<String> {
    let text = std::str::from_utf8(out).ok()?;
    let b = text.as_bytes();
    let dig = |i: usize| b.get(i).is_some_and(|c| c.is_ascii_digit());
    let mut leap = String::new();
    let mut feb = String::new();
    let mut both = String::new();
    let (mut n_leap, mut n_feb) = (0, 0);
    let mut i = 0;
    while i < b.len() {
        // hh:mm:60
        if i >= 5 && b[i..].starts_with(b":60") && dig(i - 1) && dig(i - 2) && b[i - 3] == b':' && dig(i - 4) && dig(i - 5) {
            leap.push_str(":59");
            both.push_str(":59");
            feb.push_str(":60");
            n_leap += 1;
            i += 3;
            continue;
        }
        // yyyy-02-29
        if i >= 4 && b[i..].starts_with(b"-02-29") && dig(i - 1) && dig(i - 2) && dig(i - 3) && dig(i - 4) {
            feb.push_str("-02-28");
            both.push_str("-02-28");
            leap.push_str("-02-29");
            n_feb += 1;
            i += 6;
            continue;
        }
        // copy one UTF-8 character
        let l = match b[i] {
            0..=0x7F => 1,
            0xC0..=0xDF => 2,
            0xE0..=0xEF => 3,
            _ => 4,
        }
        .min(b.len() - i);
        let ch = &text[i..i + l];
        leap.push_str(ch);
        feb.push_str(ch);
        both.push_str(ch);
        i += l;
    }
    // the repaired text is judged by the reference validator (the second validator may differ on other details of
    // the same field, e.g. a "-00:00" offset, which would hide the pattern)
    let valid = |t: &str| matches!(judge.judge_text(t.as_bytes()), Judgement::Valid) || judge.reference_says_valid(t.as_bytes());
    if n_leap > 0 && valid(&leap) {
        return Some("format_leap_second_at_arbitrary_time".into());
    }
    if n_feb > 0 && valid(&feb) {
        return Some("format_date_feb29_in_non_leap_year".into());
    }
    if n_leap > 0 && n_feb > 0 && valid(&both) {
        return Some("format_leap_second_at_arbitrary_time".into());
    }
    None
}

/// Finding K1, verified on the engine: the invalid output spells a character of an object key as a `\uXXXX` escape,
/// and the same output with those escapes written as the characters themselves is refused by the engine -- i.e. the
/// schema is enforced for the plain spelling of the key and bypassed by the escaped one.
fn classify_escaped_key(f: &llguidance::ParserFactory, g: &GCase, out: &[u8]) -> Option<String> {
    let text = std::str::from_utf8(out).ok()?;
    let b = text.as_bytes();
    let mut plain = String::new();
    let mut i = 0;
    let mut n = 0;
    while i < b.len() {
        if b[i] == b'\\' && i + 1 < b.len() {
            if b[i + 1] == b'u' && i + 6 <= b.len() {
                if let Ok(cp) = u32::from_str_radix(&text[i + 2..i + 6], 16) {
                    // a surrogate pair written as two escapes is one character
                    if (0xD800..0xDC00).contains(&cp) && i + 12 <= b.len() && &text[i + 6..i + 8] == "\\u" {
                        if let Ok(lo) = u32::from_str_radix(&text[i + 8..i + 12], 16) {
                            if (0xDC00..0xE000).contains(&lo) {
                                plain.push(char::from_u32(0x10000 + ((cp - 0xD800) << 10) + (lo - 0xDC00))?);
                                n += 1;
                                i += 12;
                                continue;
                            }
                        }
                    }
                    if cp >= 0x20 && cp != 0x22 && cp != 0x5C && cp != 0x7F && !(0xD800..0xE000).contains(&cp) {
                        plain.push(char::from_u32(cp)?);
                        n += 1;
                        i += 6;
                        continue;
                    }
                }
            }
            // any other escape: copy both bytes
            plain.push_str(&text[i..i + 2]);
            i += 2;
            continue;
        }
        let l = match b[i] {
            0..=0x7F => 1,
            0xC0..=0xDF => 2,
            0xE0..=0xEF => 3,
            _ => 4,
        }
        .min(b.len() - i);
        plain.push_str(&text[i..i + l]);
        i += l;
    }
    if n == 0 {
        return None;
    }
    // the plain spelling must be refused by a byte-level engine over the same grammar (default limits)
    let v1 = vocab::v1(false);
    let f1 = factory_noslice(&v1).ok()?;
    let _ = f;
    let m1 = matcher(&f1, g).ok()?;
    if m1.is_error() || accepts_complete(&m1, plain.as_bytes()) {
        return None;
    }
    Some("escaped_key_spelling_bypasses_key_schema".into())
}

fn accepts_complete(m0: &Matcher, text: &[u8]) -> bool {
    let mut m = m0.clone();
    for &b in text {
        if b == 0xFF || m.is_stopped() || m.consume_token(b as u32).is_err() {
            return false;
        }
    }
    if m.is_stopped() {
        m.stop_reason().is_ok()
    } else {
        m.is_accepting().unwrap_or(false)
    }
}

fn run_case(ctx: &mut Ctx, idx: u64, v1: &Vocab) {
    let mut rng = ctx.case_rng(idx);
    let mut unsupported = false;
    let schema: Value = if rng.chance(1, 8) {
        let c = crate::corpus::json_corpus();
        serde_json::from_str(&rng.pick(&c).text).unwrap()
    } else {
        let g = JsonGen { subset: rng.chance(1, 4), max_depth: 1 + rng.below(3) as u32, n_defs: 0 };
        let obj_depth = 1 + rng.below(2) as u32;
        let mut s = if rng.chance(1, 6) { g.gen_object(&mut rng, obj_depth) } else { g.gen_top(&mut rng) };
        if rng.chance(1, 12) {
            add_unsupported(&mut rng, &mut s);
            unsupported = true;
        }
        s
    };
    let text = serde_json::to_string(&schema).unwrap();
    let mut g = GCase::json(&format!("c06_{idx}"), &text);
    if unsupported {
        g = g.tag("unsupported_keyword");
    }
    let vk = match rng.below(6) {
        0 | 1 => VKind::V1,
        2 | 3 => VKind::Vsyn,
        4 => VKind::VsynC,
        _ => VKind::Bpe(rng.below(2)),
    };
    let v = pool::make_vocab(&mut rng, &g, vk);
    let Ok(f) = factory(&v, &FactoryOpts::default()) else { return };
    let m0 = match matcher(&f, &g) {
        Ok(m) if !m.is_error() => m,
        _ => {
            ctx.rep.inc("schemas_rejected_with_error");
            if unsupported {
                ctx.rep.inc("unsupported_keyword_rejected");
            }
            return;
        }
    };
    ctx.rep.inc("schemas");
    if unsupported {
        ctx.rep.inc("unsupported_keyword_compiled");
    }
    let judge = Judge::new(&schema);
    let mut kinds = std::collections::BTreeSet::new();
    keyword_kinds(&schema, &mut kinds);
    let tags = g.tags.clone();
    // ---- outputs generated through the masks
    let n_out = ctx.pick(8, 30);
    let max_steps = ctx.pick(120, 300);
    for _ in 0..n_out {
        let mut m = m0.clone();
        let mut toks = vec![];
        let mut complete = false;
        let ext = rng.below(max_steps / 2);
        for step in 0..max_steps {
            if m.is_stopped() {
                complete = m.stop_reason().is_ok();
                break;
            }
            let Ok(mask) = m.compute_mask() else {
                if is_resource_stop(&m) {
                    ctx.rep.inconclusive("resource_stop");
                }
                break;
            };
            let pol = if step < ext { if rng.chance(1, 2) { Policy::Extending } else { Policy::Uniform } } else { Policy::Closing };
            let Some(t) = walker::choose(&mut rng, &mask, &v, pol) else { break };
            if m.consume_token(t).is_err() {
                break;
            }
            toks.push(t);
        }
        if !complete && m.is_stopped() {
            complete = m.stop_reason().is_ok();
        }
        if !complete {
            ctx.rep.inc("walks_discarded_incomplete");
            continue;
        }
        let body: Vec<u32> = toks.iter().copied().filter(|&t| t != v.eos).collect();
        let out = v.trie().decode_raw(&body);
        ctx.rep.inc("outputs_judged");
        match judge.judge_text(&out) {
            Judgement::Valid => {
                if kinds.len() >= 3 {
                    ctx.rep.nontrivial(fnv(text.as_bytes()) ^ fnv(&out).rotate_left(19));
                }
            }
            Judgement::Invalid(why) => {
                let d = json!({"schema": schema, "vocab": v.name, "output": bytes_dbg(&out), "why": why, "tokens": toks});
                let rp = ctx.replay(idx);
                let kind = classify_by_repair(&judge, &out).or_else(|| classify_escaped_key(&f, &g, &out)).unwrap_or_else(|| classify_invalid(&why));
                ctx.rep.violation(&kind, &tags, d, rp);
                return;
            }
            Judgement::Inconclusive(why) => {
                ctx.rep.inconclusive("validators_disagree");
                ctx.rep.note(&format!("disagreement: {} on {} :: {}", why, text.chars().take(200).collect::<String>(), bytes_dbg(&out).chars().take(120).collect::<String>()));
            }
        }
    }
    // ---- directed negative probes: mutated instances that are invalid must not be accepted
    let Ok(f1) = factory_noslice(v1) else { return };
    let Ok(m1) = matcher(&f1, &g) else { return };
    if m1.is_error() {
        return;
    }
    let mut ig = InstGen { root: &schema, budget: 400 };
    for _ in 0..ctx.pick(6, 20) {
        let Some(inst) = ig.gen(&mut rng, &schema, 0) else { break };
        let mut mutant = inst.clone();
        for _ in 0..1 + rng.below(2) {
            mutant = mutate(&mut rng, &mutant);
        }
        let txt = serde_json::to_string(&mutant).unwrap();
        // duplicate a declared key textually now and then
        let txt = if rng.chance(1, 10) && txt.starts_with("{\"") && txt.len() > 4 {
            let inner = &txt[1..txt.len() - 1];
            format!("{{{inner},{inner}}}")
        } else {
            txt
        };
        let j = judge.judge_text(txt.as_bytes());
        ctx.rep.inc("negative_probes_generated");
        if let Judgement::Invalid(why) = j {
            ctx.rep.inc("negative_probes_invalid");
            if accepts_complete(&m1, txt.as_bytes()) {
                let d = json!({"schema": schema, "invalid_text_accepted": txt, "why_invalid": why});
                let rp = ctx.replay(idx);
                ctx.rep.violation("invalid_instance_accepted", &tags, d, rp);
                return;
            }
        }
    }
    // ---- schema-directed probes for objects: every declared / pattern-matching / foreign key with every value of a
    // small pool, alone and in pairs; what the reference validator refuses must not be accepted as complete
    if let Some(o) = schema.as_object().filter(|o| o.contains_key("properties") || o.contains_key("patternProperties")) {
        let mut names: Vec<String> = vec!["zz".into(), "fo".into()];
        if let Some(p) = o.get("properties").and_then(|p| p.as_object()) {
            names.extend(p.keys().cloned());
        }
        if let Some(r) = o.get("required").and_then(|p| p.as_array()) {
            names.extend(r.iter().filter_map(|x| x.as_str().map(|s| s.to_string())));
        }
        for k in crate::gen_json::KEYS.iter().take(6) {
            names.push(k.to_string());
        }
        names.sort();
        names.dedup();
        let pool = [json!(1), json!(-301), json!(11), json!(2.5), json!("s"), json!(""), json!(true), Value::Null, json!([]), json!({})];
        let mut cands: Vec<Value> = vec![json!({})];
        for k in &names {
            for v in &pool {
                let mut m = serde_json::Map::new();
                m.insert(k.clone(), v.clone());
                cands.push(Value::Object(m));
            }
        }
        for _ in 0..ctx.pick(20, 60) {
            let mut m = serde_json::Map::new();
            for _ in 0..2 + rng.below(2) {
                m.insert(rng.pick(&names).clone(), rng.pick(&pool).clone());
            }
            cands.push(Value::Object(m));
        }
        for c in cands {
            // keys in schema order first (the engine fixes the order of declared properties)
            let txt = serde_json::to_string(&c).unwrap();
            ctx.rep.inc("object_probes");
            if let Judgement::Invalid(why) = judge.judge_text(txt.as_bytes()) {
                ctx.rep.inc("object_probes_invalid");
                if accepts_complete(&m1, txt.as_bytes()) {
                    let d = json!({"schema": schema, "invalid_text_accepted": txt, "why_invalid": why});
                    let rp = ctx.replay(idx);
                    ctx.rep.violation("invalid_instance_accepted", &tags, d, rp);
                    return;
                }
            }
        }
    }
    if rng.chance(1, 60) {
        ctx.rep.sample(json!({"schema": schema, "vocab": v.name, "keyword_kinds": kinds.len()}));
    }
}

pub fn run(ctx: &mut Ctx) {
    let v1 = vocab::v1(false);
    let n_cases = ctx.pick(9000, 1200000);
    for idx in 0..n_cases {
        if !ctx.mine(idx) {
            continue;
        }
        if ctx.out_of_time() {
            break;
        }
        run_case(ctx, idx, &v1);
    }
}
