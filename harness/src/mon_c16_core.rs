//! C16 (core part, toktrie only so that it also runs under Miri): trie, token sets and the
//! trie walk against naive models.

use crate::report::{bytes_dbg, Report};
use crate::rng::{fnv, Rng};
use serde_json::json;
use std::collections::{BTreeSet, HashMap};
use toktrie::{Recognizer, SimpleVob, TokRxInfo, TokTrie};

// ------------------------------------------------------------------ vocabularies

pub fn random_vocab(rng: &mut Rng, small: bool) -> Vec<Vec<u8>> {
    let mut words: Vec<Vec<u8>> = vec![];
    let kind = rng.below(6);
    let alpha: &[u8] = match kind {
        0 => b"ab",
        1 => b"abc\xff",
        2 => b"ab\xc3\xa9 ",
        _ => b"abcdefgh",
    };
    if kind == 3 || rng.chance(1, 3) {
        // 256-way fan-out
        for b in 0..=255u8 {
            words.push(vec![b]);
        }
    }
    let n = if small { 4 + rng.below(20) } else { 10 + rng.below(300) };
    for _ in 0..n {
        let len = match rng.below(12) {
            0 => 0, // empty entry
            1 => 20 + rng.below(if small { 20 } else { 280 }),
            _ => 1 + rng.below(5),
        };
        let mut w: Vec<u8> = (0..len).map(|_| *rng.pick(alpha)).collect();
        if rng.chance(1, 15) && !w.is_empty() {
            w.insert(0, 0xFF); // special-marker token
        }
        if rng.chance(1, 8) && !words.is_empty() {
            // duplicate or prefix/extension of an existing token
            let base = rng.pick(&words).clone();
            w = match rng.below(3) {
                0 => base,
                1 => {
                    let mut b = base;
                    b.push(*rng.pick(alpha));
                    b
                }
                _ => {
                    let k = rng.below(base.len() + 1);
                    base[..k].to_vec()
                }
            };
        }
        words.push(w);
    }
    if words.iter().all(|w| w.is_empty()) {
        words.push(b"a".to_vec());
    }
    words
}

// ------------------------------------------------------------------ table DFA recogniser with monitors

pub struct Table {
    /// trans[state][byte] = next state or usize::MAX
    pub trans: Vec<Vec<usize>>,
}

impl Table {
    pub fn random(rng: &mut Rng, alpha: &[u8]) -> Table {
        let ns = 1 + rng.below(5);
        let dens = 1 + rng.below(4);
        let mut trans = vec![vec![usize::MAX; 256]; ns];
        for s in 0..ns {
            for &b in alpha {
                if rng.below(4) < dens {
                    trans[s][b as usize] = rng.below(ns);
                }
            }
            if rng.chance(1, 4) {
                for b in 0..256 {
                    if rng.chance(1, 3) {
                        trans[s][b] = rng.below(ns);
                    }
                }
            }
        }
        Table { trans }
    }
    pub fn run(&self, mut s: usize, bytes: &[u8]) -> Option<usize> {
        for &b in bytes {
            s = self.trans[s][b as usize];
            if s == usize::MAX {
                return None;
            }
        }
        Some(s)
    }
}

pub struct MonRec<'a> {
    pub t: &'a Table,
    pub stack: Vec<usize>,
    pub underflow: bool,
    pub depth_at_finish: Vec<usize>,
    pub max_depth: usize,
    pub pushes: u64,
}

impl<'a> MonRec<'a> {
    pub fn new(t: &'a Table, s0: usize) -> Self {
        MonRec { t, stack: vec![s0], underflow: false, depth_at_finish: vec![], max_depth: 0, pushes: 0 }
    }
}

impl<'a> Recognizer for MonRec<'a> {
    fn pop_bytes(&mut self, num: usize) {
        if num >= self.stack.len() {
            self.underflow = true;
            self.stack.truncate(1);
        } else {
            let n = self.stack.len() - num;
            self.stack.truncate(n);
        }
    }
    fn collapse(&mut self) {
        let top = *self.stack.last().unwrap();
        self.stack = vec![top];
    }
    fn trie_finished(&mut self) {
        self.depth_at_finish.push(self.stack.len() - 1);
        self.stack.truncate(1);
    }
    fn try_push_byte(&mut self, byte: u8) -> bool {
        let s = *self.stack.last().unwrap();
        let n = self.t.trans[s][byte as usize];
        if n == usize::MAX {
            false
        } else {
            self.pushes += 1;
            self.stack.push(n);
            self.max_depth = self.max_depth.max(self.stack.len() - 1);
            true
        }
    }
}

fn mask_ids(m: &SimpleVob, n: usize) -> Vec<u32> {
    (0..n as u32).filter(|&t| m.is_allowed(t)).collect()
}

/// no bit at or above the vocabulary size, checked on the raw words (spare word included)
fn raw_bits_beyond(m: &SimpleVob, n: usize) -> Option<usize> {
    for (wi, &w) in m.as_slice().iter().enumerate() {
        for b in 0..32 {
            if w & (1 << b) != 0 && wi * 32 + b >= n {
                return Some(wi * 32 + b);
            }
        }
    }
    None
}

// ------------------------------------------------------------------ trie scenario

pub fn trie_case(rng: &mut Rng, rep: &mut Report, idx: u64, small: bool, replay: serde_json::Value) {
    let words = random_vocab(rng, small);
    let n = words.len();
    let eos = rng.below(n) as u32;
    let info = TokRxInfo::new(n as u32, eos);
    let trie = TokTrie::from(&info, &words);
    rep.inc("vocabularies");
    let wset: HashMap<&[u8], Vec<u32>> = {
        let mut m: HashMap<&[u8], Vec<u32>> = HashMap::new();
        for (i, w) in words.iter().enumerate() {
            if !w.is_empty() {
                m.entry(&w[..]).or_default().push(i as u32);
            }
        }
        m
    };
    macro_rules! viol {
        ($kind:expr, $detail:expr) => {{
            let d = json!({"n_vocab": n, "words_head": words.iter().take(40).map(|w| bytes_dbg(w)).collect::<Vec<_>>(), "oracle": $detail});
            rep.violation($kind, &[], d, replay.clone());
            return;
        }};
    }
    if trie.vocab_size() != n {
        viol!("vocab_size", json!({"got": trie.vocab_size()}));
    }
    // token(i) and token_id(bytes) round trip
    for (i, w) in words.iter().enumerate() {
        rep.inc("model_checks");
        if trie.token(i as u32) != &w[..] {
            viol!("token_bytes_differ", json!({"id": i, "got": bytes_dbg(trie.token(i as u32)), "want": bytes_dbg(w)}));
        }
        if !w.is_empty() {
            match trie.token_id(w) {
                Some(t) if words[t as usize] == *w => {}
                other => viol!("token_id_roundtrip", json!({"bytes": bytes_dbg(w), "got": other})),
            }
            match trie.token_id_at_bytes(w) {
                Some(t) if words[t as usize] == *w => {}
                other => viol!("token_id_at_bytes_roundtrip", json!({"bytes": bytes_dbg(w), "got": other})),
            }
        }
        let want_len = if w.is_empty() || w[0] == 0xFF { format!("{i}").len() + 3 } else { w.len() };
        if trie.token_len(i as u32) != want_len {
            viol!("token_len", json!({"id": i, "got": trie.token_len(i as u32), "want": want_len}));
        }
    }
    if trie.token(n as u32 + rng.below(5) as u32) != b"" {
        viol!("token_out_of_range_not_empty", json!({}));
    }
    let longest = words.iter().map(|w| w.len()).max().unwrap_or(0);
    if trie.max_token_len() != longest {
        viol!("max_token_len", json!({"got": trie.max_token_len(), "want": longest}));
    }
    // random byte strings: prefix queries
    let alpha: Vec<u8> = {
        let mut a: BTreeSet<u8> = BTreeSet::new();
        for w in &words {
            a.extend(w.iter().copied());
        }
        a.insert(b'z');
        a.into_iter().collect()
    };
    for _ in 0..(if small { 12 } else { 60 }) {
        let s: Vec<u8> = if rng.chance(1, 2) {
            let base = rng.pick(&words).clone();
            let mut b = base;
            for _ in 0..rng.below(3) {
                b.push(*rng.pick(&alpha));
            }
            b
        } else {
            (0..1 + rng.below(6)).map(|_| *rng.pick(&alpha)).collect()
        };
        if s.is_empty() {
            continue;
        }
        rep.inc("model_checks");
        // naive: which prefixes are tokens
        let pref: Vec<usize> = (1..=s.len()).filter(|&k| wset.contains_key(&s[..k])).collect();
        let got = trie.all_prefixes(&s);
        let got_lens: Vec<usize> = got.iter().map(|&t| words[t as usize].len()).collect();
        if got_lens != pref || got.iter().any(|&t| !s.starts_with(&words[t as usize])) {
            viol!("all_prefixes", json!({"bytes": bytes_dbg(&s), "got_lens": got_lens, "want_lens": pref}));
        }
        let (t, l) = trie.prefix_token_id(&s);
        let want_l = pref.last().copied().unwrap_or(0);
        if l != want_l || (l > 0 && words[t as usize] != s[..l]) || (l == 0 && t != 0) {
            viol!("prefix_token_id", json!({"bytes": bytes_dbg(&s), "got": [t as usize, l], "want_len": want_l}));
        }
        let want_id = wset.get(&s[..]);
        match (trie.token_id(&s), want_id) {
            (None, None) => {}
            (Some(t), Some(ids)) if ids.contains(&t) => {}
            (g, w) => viol!("token_id", json!({"bytes": bytes_dbg(&s), "got": g, "want": w})),
        }
        let want_ext = words.iter().any(|w| w.len() > s.len() && w.starts_with(&s));
        if trie.has_extensions(&s) != want_ext {
            viol!("has_extensions", json!({"bytes": bytes_dbg(&s), "got": trie.has_extensions(&s), "want": want_ext}));
        }
        // all_subtokens: every (start, token) occurrence
        let sub = trie.all_subtokens(&s);
        let mut want_sub = 0;
        for i in 0..s.len() {
            for k in i + 1..=s.len() {
                if wset.contains_key(&s[i..k]) {
                    want_sub += 1;
                } else if !words.iter().any(|w| w.starts_with(&s[i..k])) {
                    break;
                }
            }
        }
        if sub.len() != want_sub {
            viol!("all_subtokens", json!({"bytes": bytes_dbg(&s), "got": sub.len(), "want": want_sub}));
        }
    }
    // greedy tokenisation of covered text decodes back to it and is longest-match
    // "covered" text: every byte of it is itself a token, so longest-match can always make progress
    let single: Vec<bool> = (0..=255u8).map(|b| wset.contains_key(&[b][..])).collect();
    let covered: Vec<&Vec<u8>> = words.iter().filter(|w| !w.is_empty() && !w.contains(&0xFF) && w.iter().all(|&b| single[b as usize])).collect();
    if !covered.is_empty() {
        for _ in 0..(if small { 3 } else { 10 }) {
            let mut text = vec![];
            for _ in 0..1 + rng.below(8) {
                let w: &Vec<u8> = *rng.pick(&covered);
                text.extend_from_slice(w);
            }
            let toks = trie.greedy_tokenize(&text);
            rep.inc("model_checks");
            if trie.decode_raw(&toks) != text {
                viol!("greedy_tokenize_roundtrip", json!({"text": bytes_dbg(&text), "tokens": toks}));
            }
            // naive longest match
            let mut i = 0;
            for &t in &toks {
                let mut best = 0;
                for k in 1..=(text.len() - i).min(longest) {
                    if wset.contains_key(&text[i..i + k]) {
                        best = k;
                    }
                }
                if words[t as usize].len() != best {
                    viol!("greedy_tokenize_not_longest", json!({"text": bytes_dbg(&text), "at": i, "took": words[t as usize].len(), "longest": best}));
                }
                i += best;
            }
        }
    }
    // add_bias / has_valid_extensions against per-token evaluation
    for _ in 0..(if small { 4 } else { 14 }) {
        let tbl = Table::random(rng, &alpha);
        let s0 = rng.below(tbl.trans.len());
        let start: Vec<u8> = if rng.chance(1, 3) {
            let w = rng.pick(&words);
            let k = rng.below(w.len().min(4) + 1);
            let mut s = w[..k].to_vec();
            if rng.chance(1, 4) {
                s.push(*rng.pick(&alpha));
            }
            s
        } else {
            vec![]
        };
        let mut rec = MonRec::new(&tbl, s0);
        let mut set = trie.alloc_token_set();
        trie.add_bias(&mut rec, &mut set, &start);
        rep.inc("add_bias_walks");
        rep.add("tokens_compared", n as u64);
        // expected
        let mut want: Vec<u32> = vec![];
        for (i, w) in words.iter().enumerate() {
            if w.is_empty() {
                continue;
            }
            let ok = if start.is_empty() {
                tbl.run(s0, w).is_some()
            } else if w.len() <= start.len() {
                start.starts_with(w)
            } else {
                w.starts_with(&start) && tbl.run(s0, &w[start.len()..]).is_some()
            };
            if ok {
                want.push(i as u32);
            }
        }
        let got = mask_ids(&set, n);
        if got != want {
            let gs: BTreeSet<_> = got.iter().collect();
            let ws: BTreeSet<_> = want.iter().collect();
            viol!("add_bias_vs_per_token", json!({"start": bytes_dbg(&start), "state0": s0, "only_in_trie_walk": gs.difference(&ws).take(6).map(|&&t| (t, bytes_dbg(&words[t as usize]))).collect::<Vec<_>>(), "only_in_model": ws.difference(&gs).take(6).map(|&&t| (t, bytes_dbg(&words[t as usize]))).collect::<Vec<_>>()}));
        }
        if let Some(b) = raw_bits_beyond(&set, n) {
            viol!("mask_bit_at_or_above_vocab", json!({"bit": b, "start": bytes_dbg(&start)}));
        }
        // the same acceptor through the library's own adapter (FunctionalRecognizer + StackRecognizer): same token set,
        // and the adapter is left reusable (a second walk on the same object gives the same set again)
        if words.iter().all(|w| w.len() < toktrie::recognizer::STACK_CAPACITY - 2) {
            struct FnRec<'a> {
                t: &'a Table,
                s0: usize,
            }
            impl<'a> toktrie::recognizer::FunctionalRecognizer<usize> for FnRec<'a> {
                fn initial(&self) -> usize {
                    self.s0
                }
                fn try_append(&self, state: usize, byte: u8) -> Option<usize> {
                    let n = self.t.trans[state][byte as usize];
                    if n == usize::MAX {
                        None
                    } else {
                        Some(n)
                    }
                }
            }
            let mut sr = toktrie::recognizer::StackRecognizer::from(FnRec { t: &tbl, s0 });
            for round in 0..2 {
                let mut set2 = trie.alloc_token_set();
                trie.add_bias(&mut sr, &mut set2, &start);
                rep.inc("stack_recognizer_walks");
                let got2 = mask_ids(&set2, n);
                if got2 != got {
                    viol!("stack_recognizer_walk_differs", json!({"start": bytes_dbg(&start), "state0": s0, "round": round, "adapter_len": got2.len(), "monitored_recognizer_len": got.len()}));
                }
            }
        }
        if set.len() != n + 1 && set.len() != n {
            viol!("mask_len", json!({"len": set.len()}));
        }
        if rec.underflow {
            viol!("recognizer_stack_underflow", json!({"start": bytes_dbg(&start)}));
        }
        if start.is_empty() && rec.depth_at_finish.iter().any(|&d| d != 0) {
            viol!("recognizer_stack_not_restored", json!({"depths": rec.depth_at_finish}));
        }
        if rec.max_depth > longest {
            viol!("recognizer_stack_deeper_than_longest_token", json!({"max_depth": rec.max_depth, "longest": longest}));
        }
        // has_valid_extensions
        let mut rec2 = MonRec::new(&tbl, s0);
        let hv = trie.has_valid_extensions(&mut rec2, &start);
        let want_hv = words.iter().any(|w| w.len() > start.len() && w.starts_with(&start) && tbl.run(s0, &w[start.len()..]).is_some());
        if hv != want_hv {
            viol!("has_valid_extensions", json!({"start": bytes_dbg(&start), "got": hv, "want": want_hv}));
        }
        if got.len() >= 2 && got.len() < n {
            rep.nontrivial(fnv(&words.concat()) ^ idx.rotate_left(7) ^ fnv(&start) ^ (s0 as u64) << 40 ^ fnv(&tbl.trans.concat().iter().flat_map(|x| (*x as u32).to_le_bytes()).collect::<Vec<u8>>()));
        }
    }
    // filter(m) behaves like from(filtered vocabulary)
    {
        let mut keep = trie.alloc_token_set();
        for t in 0..n as u32 {
            if rng.chance(2, 3) {
                keep.allow_token(t);
            }
        }
        let ft = trie.filter(&keep);
        let fwords: Vec<Vec<u8>> = (0..n).map(|i| if keep.is_allowed(i as u32) { words[i].clone() } else { vec![] }).collect();
        let rt = TokTrie::from(&info, &fwords);
        rep.inc("filter_checks");
        for i in 0..n as u32 {
            if ft.token(i) != rt.token(i) {
                viol!("filter_token_bytes", json!({"id": i}));
            }
        }
        let tbl = Table::random(rng, &alpha);
        let (mut ra, mut rb) = (MonRec::new(&tbl, 0), MonRec::new(&tbl, 0));
        let (mut sa, mut sb) = (ft.alloc_token_set(), rt.alloc_token_set());
        ft.add_bias(&mut ra, &mut sa, &[]);
        rt.add_bias(&mut rb, &mut sb, &[]);
        if mask_ids(&sa, n) != mask_ids(&sb, n) {
            viol!("filter_vs_from_masks_differ", json!({}));
        }
        if ft.max_token_len() != rt.max_token_len() {
            viol!("filter_max_token_len", json!({"filter": ft.max_token_len(), "from": rt.max_token_len()}));
        }
    }
    if idx % 400 == 0 {
        rep.sample(json!({"scenario": "trie", "n_vocab": n, "words_head": words.iter().take(12).map(|w| bytes_dbg(w)).collect::<Vec<_>>()}));
    }
}

// ------------------------------------------------------------------ SimpleVob programs

pub fn svob_case(rng: &mut Rng, rep: &mut Report, idx: u64, replay: serde_json::Value) {
    let sizes = [0usize, 1, 31, 32, 33, 63, 64, 65, 95, 96, 97, 127, 128, 129, 255, 256, 257, 1000];
    let size = if rng.chance(3, 4) { *rng.pick(&sizes) } else { rng.below(300) };
    // half of the programs run on a vector with spare capacity, like TokTrie::alloc_token_set()
    // (= alloc_with_capacity(vocab, vocab + 1), a whole spare word when vocab % 32 == 0)
    let spare = if rng.chance(1, 2) { 0 } else { *rng.pick(&[1usize, 1, 1, 32, 33]) };
    let mut v = if spare == 0 { SimpleVob::alloc(size) } else { SimpleVob::alloc_with_capacity(size, size + spare) };
    let mut model: BTreeSet<usize> = BTreeSet::new();
    let mut msize = size;
    // number of storage words (the capacity, in words)
    let mut mwords = (size + spare).div_ceil(32);
    let mut log: Vec<String> = vec![];
    macro_rules! viol {
        ($kind:expr, $detail:expr) => {{
            let d = json!({"size": size, "spare_capacity": spare, "ops": log, "oracle": $detail});
            rep.violation($kind, &[], d, replay.clone());
            return;
        }};
    }
    let rand_set = |rng: &mut Rng, size: usize| -> (SimpleVob, BTreeSet<usize>) {
        let mut o = SimpleVob::alloc(size);
        let mut m = BTreeSet::new();
        let k = rng.below(size + 1).min(40);
        for _ in 0..k {
            let i = rng.below(size.max(1));
            if i < size {
                o.set(i, true);
                m.insert(i);
            }
        }
        (o, m)
    };
    for _ in 0..(6 + rng.below(20)) {
        rep.inc("svob_ops");
        match rng.below(16) {
            0 if msize > 0 => {
                let i = rng.below(msize);
                v.allow_token(i as u32);
                model.insert(i);
                log.push(format!("allow {i}"));
            }
            1 if msize > 0 => {
                let i = rng.below(msize);
                v.disallow_token(i as u32);
                model.remove(&i);
                log.push(format!("disallow {i}"));
            }
            2 if msize > 0 => {
                let a = rng.below(msize);
                let b = rng.below(msize);
                log.push(format!("allow_range {a}..={b}"));
                v.allow_range(a as u32..=b as u32);
                if a <= b {
                    model.extend(a..=b);
                }
            }
            3 => {
                v = v.negated();
                model = (0..msize).filter(|i| !model.contains(i)).collect();
                log.push("negated".into());
            }
            4 => {
                let (o, m) = rand_set(rng, msize);
                v.or(&o);
                model.extend(m);
                log.push("or".into());
            }
            5 => {
                let (o, m) = rand_set(rng, msize);
                v.and(&o);
                model = model.intersection(&m).copied().collect();
                log.push("and".into());
            }
            6 => {
                let (o, m) = rand_set(rng, msize);
                v.sub(&o);
                model = model.difference(&m).copied().collect();
                log.push("sub".into());
            }
            7 => {
                let (o, m) = rand_set(rng, msize);
                let (mi, mm) = rand_set(rng, msize);
                v.or_minus(&o, &mi);
                model.extend(m.difference(&mm).copied());
                log.push("or_minus".into());
            }
            8 => {
                let val = rng.chance(1, 2);
                v.set_all(val);
                model = if val { (0..msize).collect() } else { BTreeSet::new() };
                log.push(format!("set_all {val}"));
            }
            9 => {
                // or with a shorter set (documented: self.size >= other.size)
                let os = rng.below(msize + 1);
                let (o, m) = rand_set(rng, os);
                v.or(&o);
                model.extend(m);
                log.push(format!("or_shorter {os}"));
            }
            10 => {
                // documented precondition: resize never shrinks the storage
                let ns = msize.max((mwords.max(1) - 1) * 32 + 1).max(if mwords == 0 { 0 } else { 1 }) + rng.below(70);
                v.resize(ns);
                msize = ns;
                mwords = ns.div_ceil(32);
                log.push(format!("resize {ns}"));
            }
            11 => {
                v.trim_trailing_zeros();
                let words_needed = model.iter().next_back().map_or(0, |&m| m / 32 + 1);
                if words_needed != mwords {
                    mwords = words_needed;
                    msize = words_needed * 32;
                }
                log.push("trim_trailing_zeros".into());
            }
            12 => {
                let (o, m) = rand_set(rng, msize);
                let got = v.first_bit_set_here_and_in(&o);
                let want = model.intersection(&m).next().copied();
                if got != want {
                    viol!("first_bit_set_here_and_in", json!({"got": got, "want": want}));
                }
                if v.and_is_zero(&o) != want.is_none() {
                    viol!("and_is_zero", json!({"want_zero": want.is_none()}));
                }
            }
            13 => {
                let bits: Vec<bool> = (0..msize).map(|i| model.contains(&i)).collect();
                let f = SimpleVob::from_slice(&bits);
                if f.to_list() != model.iter().map(|&x| x as u32).collect::<Vec<_>>() {
                    viol!("from_slice", json!({}));
                }
            }
            14 => {
                let o = SimpleVob::alloc_ones(msize);
                if o.num_set() != msize || raw_bits_beyond(&o, msize).is_some() {
                    viol!("alloc_ones", json!({"num_set": o.num_set(), "size": msize}));
                }
            }
            _ => {
                // (set_from copies the storage: same size and same capacity required)
                let mut c = SimpleVob::alloc_with_capacity(msize, (mwords * 32).max(msize));
                c.set_from(&v);
                if c != v {
                    viol!("set_from", json!({}));
                }
            }
        }
        // observation after every op
        rep.inc("svob_checks");
        let want: Vec<u32> = model.iter().map(|&x| x as u32).collect();
        if v.len() != msize {
            viol!("len", json!({"got": v.len(), "want": msize}));
        }
        if v.to_list() != want {
            viol!("to_list", json!({"got": v.to_list().iter().take(10).collect::<Vec<_>>(), "want": want.iter().take(10).collect::<Vec<_>>()}));
        }
        if v.iter().collect::<Vec<u32>>() != want {
            viol!("iter", json!({}));
        }
        if v.num_set() != want.len() {
            viol!("num_set", json!({"got": v.num_set(), "want": want.len()}));
        }
        if v.is_zero() != want.is_empty() {
            viol!("is_zero", json!({}));
        }
        if v.first_bit_set() != model.iter().next().copied() {
            viol!("first_bit_set", json!({"got": v.first_bit_set()}));
        }
        if let Some(b) = raw_bits_beyond(&v, msize) {
            viol!("bit_at_or_above_size", json!({"bit": b, "size": msize}));
        }
        let mut unset = vec![];
        v.iter_unset_entries(|i| unset.push(i));
        let want_unset: Vec<usize> = (0..msize).filter(|i| !model.contains(i)).collect();
        if unset != want_unset {
            viol!("iter_unset_entries", json!({"got_len": unset.len(), "want_len": want_unset.len()}));
        }
        let mut ent = vec![];
        v.iter_entries(|b, i| ent.push((b, i)));
        if ent.len() != msize || ent.iter().any(|&(b, i)| b != model.contains(&i)) {
            viol!("iter_entries", json!({"got_len": ent.len()}));
        }
        for _ in 0..3 {
            if msize > 0 {
                let i = rng.below(msize);
                if v.get(i) != model.contains(&i) || v[i] != model.contains(&i) {
                    viol!("get", json!({"idx": i}));
                }
            }
        }
        if msize > 0 {
            let mut buf = vec![0u8; msize.div_ceil(32) * 4];
            v.write_to(&mut buf);
            for i in 0..msize {
                if ((buf[i / 8] >> (i % 8)) & 1 == 1) != model.contains(&i) {
                    viol!("write_to", json!({"idx": i}));
                }
            }
        }
    }
    if !model.is_empty() && msize >= 31 {
        rep.nontrivial(fnv(log.join(",").as_bytes()) ^ (size as u64) << 48);
    }
    if idx % 500 == 1 {
        rep.sample(json!({"scenario": "svob", "size": size, "ops": log}));
    }
}

pub fn run_core(rep: &mut Report, seed: u64, lo: u64, hi: u64, step: u64, offset: u64, small: bool, max_ms: u128) {
    let t0 = std::time::Instant::now();
    let mut idx = lo;
    while idx < hi {
        if t0.elapsed().as_millis() > max_ms {
            rep.inc("cases_skipped_deadline");
            break;
        }
        if idx % step == offset {
            let mut rng = Rng::new(seed.wrapping_mul(0x9E3779B97F4A7C15) ^ 0xC16 ^ idx.wrapping_mul(0xD1B54A32D192ED03));
            let replay = json!({"seed": seed, "case": idx, "tier": "quick"});
            if idx % 2 == 0 {
                trie_case(&mut rng, rep, idx, small, replay);
            } else {
                svob_case(&mut rng, rep, idx, replay);
            }
            rep.inc("cases");
        }
        idx += 1;
    }
}
