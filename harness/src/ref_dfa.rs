//! Reference model for regular expressions: harness AST -> Thompson NFA over bytes ->
//! subset construction -> DFA with liveness. Independent of derivre and of the engine.

use crate::gen_regex::Rx;
use regex_syntax::utf8::Utf8Sequences;
use std::collections::{BTreeSet, HashMap};

#[derive(Default, Clone)]
struct Nfa {
    /// byte-range transitions
    tr: Vec<Vec<(u8, u8, usize)>>,
    eps: Vec<Vec<usize>>,
}

impl Nfa {
    fn new_state(&mut self) -> usize {
        self.tr.push(vec![]);
        self.eps.push(vec![]);
        self.tr.len() - 1
    }
    fn eps(&mut self, a: usize, b: usize) {
        self.eps[a].push(b);
    }
    fn edge(&mut self, a: usize, lo: u8, hi: u8, b: usize) {
        self.tr[a].push((lo, hi, b));
    }
}

#[derive(Clone)]
pub struct Dfa {
    pub trans: Vec<[u32; 256]>,
    pub accept: Vec<bool>,
    pub live: Vec<bool>,
    pub start: u32,
}

pub const MAX_DFA_STATES: usize = 20_000;

#[derive(Debug)]
pub struct TooBig;

/// simple-case-fold set of a char, hard-coded for the generator's alphabet
pub fn fold_set(c: char) -> Vec<char> {
    let mut v = vec![c];
    if c.is_ascii_alphabetic() {
        v.push(c.to_ascii_lowercase());
        v.push(c.to_ascii_uppercase());
        match c.to_ascii_lowercase() {
            'k' => v.push('\u{212a}'),
            's' => v.push('\u{17f}'),
            _ => {}
        }
    }
    match c {
        '\u{e9}' => v.push('\u{c9}'),
        '\u{c9}' => v.push('\u{e9}'),
        '\u{212a}' => {
            v.push('k');
            v.push('K');
        }
        '\u{17f}' => {
            v.push('s');
            v.push('S');
        }
        _ => {}
    }
    v.sort();
    v.dedup();
    v
}

fn norm_ranges(r: &[(char, char)]) -> Vec<(u32, u32)> {
    let mut v: Vec<(u32, u32)> = r.iter().map(|&(a, b)| (a as u32, b as u32)).collect();
    v.sort();
    let mut out: Vec<(u32, u32)> = vec![];
    for (a, b) in v {
        if let Some(l) = out.last_mut() {
            if a <= l.1 + 1 {
                if b > l.1 {
                    l.1 = b;
                }
                continue;
            }
        }
        out.push((a, b));
    }
    out
}

fn negate_ranges(r: &[(u32, u32)]) -> Vec<(u32, u32)> {
    let mut out = vec![];
    let mut next = 0u32;
    for &(a, b) in r {
        if a > next {
            out.push((next, a - 1));
        }
        next = b + 1;
    }
    if next <= 0x10FFFF {
        out.push((next, 0x10FFFF));
    }
    out
}

/// remove surrogates, return valid scalar ranges
fn scalar_ranges(r: &[(u32, u32)]) -> Vec<(char, char)> {
    let mut out = vec![];
    for &(a, b) in r {
        let mut parts = vec![];
        if a <= 0xD7FF {
            parts.push((a, b.min(0xD7FF)));
        }
        if b >= 0xE000 {
            parts.push((a.max(0xE000), b));
        }
        for (x, y) in parts {
            if x > y {
                continue;
            }
            if let (Some(x), Some(y)) = (char::from_u32(x), char::from_u32(y)) {
                out.push((x, y));
            }
        }
    }
    out
}

struct Builder {
    nfa: Nfa,
}

impl Builder {
    fn class(&mut self, ranges: &[(char, char)]) -> (usize, usize) {
        let s = self.nfa.new_state();
        let e = self.nfa.new_state();
        for &(a, b) in ranges {
            for seq in Utf8Sequences::new(a, b) {
                let rs = seq.as_slice();
                let mut cur = s;
                for (i, r) in rs.iter().enumerate() {
                    let nxt = if i + 1 == rs.len() { e } else { self.nfa.new_state() };
                    self.nfa.edge(cur, r.start, r.end, nxt);
                    cur = nxt;
                }
            }
        }
        (s, e)
    }

    fn lit_bytes(&mut self, b: &[u8]) -> (usize, usize) {
        let s = self.nfa.new_state();
        let mut cur = s;
        for &x in b {
            let n = self.nfa.new_state();
            self.nfa.edge(cur, x, x, n);
            cur = n;
        }
        (s, cur)
    }

    fn build(&mut self, r: &Rx, ci: bool) -> Result<(usize, usize), TooBig> {
        if self.nfa.tr.len() > 200_000 {
            return Err(TooBig);
        }
        Ok(match r {
            Rx::Empty => {
                let s = self.nfa.new_state();
                (s, s)
            }
            Rx::Lit(l) => {
                if !ci {
                    self.lit_bytes(l.as_bytes())
                } else {
                    let s = self.nfa.new_state();
                    let mut cur = s;
                    for c in l.chars() {
                        let fs: Vec<(char, char)> = fold_set(c).into_iter().map(|c| (c, c)).collect();
                        let (a, b) = self.class(&fs);
                        self.nfa.eps(cur, a);
                        cur = b;
                    }
                    (s, cur)
                }
            }
            Rx::Class(rs, neg) => {
                let mut rr: Vec<(char, char)> = rs.clone();
                if ci {
                    // add folds of every ASCII letter / table char in the ranges
                    let mut extra = vec![];
                    for &(a, b) in rs {
                        let (a, b) = (a as u32, b as u32);
                        let cands = (0x41u32..=0x5a).chain(0x61..=0x7a).chain([0xe9, 0xc9, 0x212a, 0x17f]);
                        for cp in cands {
                            if cp >= a && cp <= b {
                                for f in fold_set(char::from_u32(cp).unwrap()) {
                                    extra.push((f, f));
                                }
                            }
                        }
                    }
                    rr.extend(extra);
                }
                let n = norm_ranges(&rr);
                let n = if *neg { negate_ranges(&n) } else { n };
                let sr = scalar_ranges(&n);
                self.class(&sr)
            }
            Rx::Dot => self.class(&[('\0', '\u{9}'), ('\u{b}', '\u{d7ff}'), ('\u{e000}', '\u{10ffff}')]),
            Rx::DotAll => self.class(&[('\0', '\u{d7ff}'), ('\u{e000}', '\u{10ffff}')]),
            Rx::Cat(v) => {
                let s = self.nfa.new_state();
                let mut cur = s;
                for x in v {
                    let (a, b) = self.build(x, ci)?;
                    self.nfa.eps(cur, a);
                    cur = b;
                }
                (s, cur)
            }
            Rx::Alt(v) => {
                let s = self.nfa.new_state();
                let e = self.nfa.new_state();
                for x in v {
                    let (a, b) = self.build(x, ci)?;
                    self.nfa.eps(s, a);
                    self.nfa.eps(b, e);
                }
                (s, e)
            }
            Rx::Rep(x, m, n) => {
                let s = self.nfa.new_state();
                let mut cur = s;
                for _ in 0..*m {
                    let (a, b) = self.build(x, ci)?;
                    self.nfa.eps(cur, a);
                    cur = b;
                }
                match n {
                    None => {
                        let (a, b) = self.build(x, ci)?;
                        let e = self.nfa.new_state();
                        self.nfa.eps(cur, a);
                        self.nfa.eps(cur, e);
                        self.nfa.eps(b, a);
                        self.nfa.eps(b, e);
                        (s, e)
                    }
                    Some(n) => {
                        let e = self.nfa.new_state();
                        self.nfa.eps(cur, e);
                        for _ in *m..*n {
                            let (a, b) = self.build(x, ci)?;
                            self.nfa.eps(cur, a);
                            self.nfa.eps(b, e);
                            cur = b;
                        }
                        (s, e)
                    }
                }
            }
            Rx::CaseI(x) => self.build(x, true)?,
            Rx::And(v) => {
                let mut d: Option<Dfa> = None;
                for x in v {
                    let dx = Dfa::from_rx_ci(x, ci)?;
                    d = Some(match d {
                        None => dx,
                        Some(p) => p.product(&dx, |a, b| a && b)?,
                    });
                }
                self.embed(&d.unwrap())
            }
            Rx::Not(x) => {
                let dx = Dfa::from_rx_ci(x, ci)?;
                let utf8 = Dfa::from_rx_ci(&Rx::Rep(Box::new(Rx::DotAll), 0, None), false)?;
                let d = dx.complement().product(&utf8, |a, b| a && b)?;
                self.embed(&d)
            }
            Rx::RawNot(x) => {
                let dx = Dfa::from_rx_ci(x, ci)?;
                self.embed(&dx.complement())
            }
        })
    }

    /// embed a DFA as an NFA fragment
    fn embed(&mut self, d: &Dfa) -> (usize, usize) {
        let base = self.nfa.tr.len();
        for _ in 0..d.trans.len() {
            self.nfa.new_state();
        }
        let e = self.nfa.new_state();
        for (q, row) in d.trans.iter().enumerate() {
            if !d.live[q] {
                continue;
            }
            let mut b = 0usize;
            while b < 256 {
                let t = row[b];
                let mut hi = b;
                while hi + 1 < 256 && row[hi + 1] == t {
                    hi += 1;
                }
                if d.live[t as usize] {
                    self.nfa.edge(base + q, b as u8, hi as u8, base + t as usize);
                }
                b = hi + 1;
            }
            if d.accept[q] {
                self.nfa.eps(base + q, e);
            }
        }
        (base + d.start as usize, e)
    }
}

impl Dfa {
    pub fn from_rx(r: &Rx) -> Result<Dfa, TooBig> {
        Self::from_rx_ci(r, false)
    }

    fn from_rx_ci(r: &Rx, ci: bool) -> Result<Dfa, TooBig> {
        let mut b = Builder { nfa: Nfa::default() };
        let (s, e) = b.build(r, ci)?;
        determinize(&b.nfa, s, e)
    }

    fn finish(mut self) -> Dfa {
        // liveness = can reach an accepting state
        let n = self.trans.len();
        let mut rev: Vec<Vec<u32>> = vec![vec![]; n];
        for (q, row) in self.trans.iter().enumerate() {
            let mut last = u32::MAX;
            for &t in row.iter() {
                if t != last {
                    rev[t as usize].push(q as u32);
                    last = t;
                }
            }
        }
        let mut live = self.accept.clone();
        let mut stack: Vec<u32> = (0..n as u32).filter(|&q| live[q as usize]).collect();
        while let Some(q) = stack.pop() {
            for &p in &rev[q as usize] {
                if !live[p as usize] {
                    live[p as usize] = true;
                    stack.push(p);
                }
            }
        }
        self.live = live;
        self
    }

    pub fn complement(&self) -> Dfa {
        let mut d = self.clone();
        for a in d.accept.iter_mut() {
            *a = !*a;
        }
        d.finish()
    }

    pub fn product(&self, o: &Dfa, f: impl Fn(bool, bool) -> bool) -> Result<Dfa, TooBig> {
        let mut ids: HashMap<(u32, u32), u32> = HashMap::new();
        let mut states = vec![(self.start, o.start)];
        ids.insert((self.start, o.start), 0);
        let mut trans: Vec<[u32; 256]> = vec![];
        let mut accept = vec![];
        let mut i = 0;
        while i < states.len() {
            let (a, b) = states[i];
            let mut row = [0u32; 256];
            for c in 0..256 {
                let k = (self.trans[a as usize][c], o.trans[b as usize][c]);
                let id = match ids.get(&k) {
                    Some(&id) => id,
                    None => {
                        let id = states.len() as u32;
                        ids.insert(k, id);
                        states.push(k);
                        id
                    }
                };
                row[c] = id;
            }
            trans.push(row);
            accept.push(f(self.accept[a as usize], o.accept[b as usize]));
            if states.len() > MAX_DFA_STATES {
                return Err(TooBig);
            }
            i += 1;
        }
        Ok(Dfa { trans, accept, live: vec![], start: 0 }.finish())
    }

    #[inline]
    pub fn step(&self, q: u32, b: u8) -> u32 {
        self.trans[q as usize][b as usize]
    }
    pub fn run_from(&self, mut q: u32, bytes: &[u8]) -> u32 {
        for &b in bytes {
            q = self.step(q, b);
        }
        q
    }
    pub fn run(&self, bytes: &[u8]) -> u32 {
        self.run_from(self.start, bytes)
    }
    pub fn is_live(&self, q: u32) -> bool {
        self.live[q as usize]
    }
    pub fn is_accept(&self, q: u32) -> bool {
        self.accept[q as usize]
    }
    pub fn matches(&self, bytes: &[u8]) -> bool {
        self.is_accept(self.run(bytes))
    }
    pub fn n_live(&self) -> usize {
        self.live.iter().filter(|&&l| l).count()
    }
    /// bytes leading to a live state from q
    pub fn live_bytes(&self, q: u32) -> Vec<u8> {
        (0..=255u8).filter(|&b| self.is_live(self.step(q, b))).collect()
    }
    /// does some non-empty extension from q lead to acceptance?
    pub fn can_extend(&self, q: u32) -> bool {
        (0..=255u8).any(|b| self.is_live(self.step(q, b)))
    }
}

fn closure(nfa: &Nfa, set: &mut BTreeSet<usize>) {
    let mut stack: Vec<usize> = set.iter().copied().collect();
    while let Some(s) = stack.pop() {
        for &t in &nfa.eps[s] {
            if set.insert(t) {
                stack.push(t);
            }
        }
    }
}

fn determinize(nfa: &Nfa, s: usize, e: usize) -> Result<Dfa, TooBig> {
    let mut ids: HashMap<Vec<usize>, u32> = HashMap::new();
    let mut sets: Vec<Vec<usize>> = vec![];
    let mut start = BTreeSet::new();
    start.insert(s);
    closure(nfa, &mut start);
    let startv: Vec<usize> = start.into_iter().collect();
    ids.insert(startv.clone(), 0);
    sets.push(startv);
    let mut trans: Vec<[u32; 256]> = vec![];
    let mut accept = vec![];
    let mut i = 0;
    while i < sets.len() {
        let cur = sets[i].clone();
        // process byte classes rather than 256 individual bytes
        let mut row = [0u32; 256];
        let mut edges: Vec<(u8, u8, usize)> = vec![];
        for &q in &cur {
            edges.extend_from_slice(&nfa.tr[q]);
        }
        let mut bounds: BTreeSet<usize> = BTreeSet::new();
        bounds.insert(0);
        bounds.insert(256);
        for &(lo, hi, _) in &edges {
            bounds.insert(lo as usize);
            bounds.insert(hi as usize + 1);
        }
        let bv: Vec<usize> = bounds.into_iter().collect();
        for w in bv.windows(2) {
            let (lo, hi) = (w[0], w[1] - 1);
            let mut tgt = BTreeSet::new();
            for &(a, b, t) in &edges {
                if (a as usize) <= lo && hi <= b as usize {
                    tgt.insert(t);
                }
            }
            closure(nfa, &mut tgt);
            let key: Vec<usize> = tgt.into_iter().collect();
            let id = match ids.get(&key) {
                Some(&id) => id,
                None => {
                    let id = sets.len() as u32;
                    ids.insert(key.clone(), id);
                    sets.push(key);
                    id
                }
            };
            for c in lo..=hi {
                row[c] = id;
            }
        }
        trans.push(row);
        accept.push(cur.contains(&e));
        if sets.len() > MAX_DFA_STATES {
            return Err(TooBig);
        }
        i += 1;
    }
    Ok(Dfa { trans, accept, live: vec![], start: 0 }.finish())
}
