//! Case pool shared by the redundant-path monitors: grammar (corpus or generated) + vocabulary.

use crate::corpus;
use crate::ctx::Ctx;
use crate::engine::*;
use crate::gen_regex::RxGen;
use crate::rng::Rng;
use crate::vocab::{self, Vocab};
use crate::walker;
use std::sync::OnceLock;

static BPE: OnceLock<Vec<Vocab>> = OnceLock::new();

pub fn bpe_vocabs() -> &'static Vec<Vocab> {
    BPE.get_or_init(|| {
        let mut v = vec![];
        for n in [512usize, 1024, 4096] {
            if let Ok(x) = vocab::vbpe(n) {
                v.push(x);
            }
        }
        v
    })
}

#[derive(Clone, Copy, Debug, PartialEq)]
pub enum VKind {
    V1,
    V1c,
    Vsyn,
    VsynC,
    Bpe(usize),
}

pub fn pick_vkind(rng: &mut Rng, allow_big: bool) -> VKind {
    match rng.below(10) {
        0 => VKind::V1,
        1 => VKind::V1c,
        2..=4 => VKind::Vsyn,
        5..=6 => VKind::VsynC,
        7 => VKind::Bpe(0),
        8 => VKind::Bpe(1),
        _ => {
            if allow_big {
                VKind::Bpe(2)
            } else {
                VKind::Bpe(0)
            }
        }
    }
}

pub fn make_vocab(rng: &mut Rng, g: &GCase, k: VKind) -> Vocab {
    match k {
        VKind::V1 => vocab::v1(false),
        VKind::V1c => vocab::v1(true),
        VKind::Vsyn | VKind::VsynC => {
            let v1 = vocab::v1(false);
            let mut samples = walker::sample_strings(rng, g, &v1, 6, 60);
            samples.extend(vocab::generic_samples());
            let n = 30 + rng.below(400);
            let low = if g.has_tag("special_mix") { Some(true) } else { None };
            vocab::vsyn_ex(rng, &samples, n, k == VKind::VsynC, if k == VKind::VsynC { "VsynC" } else { "Vsyn" }, low)
        }
        VKind::Bpe(i) => {
            let b = bpe_vocabs();
            if b.is_empty() {
                vocab::v1(true)
            } else {
                b[i.min(b.len() - 1)].clone()
            }
        }
    }
}

/// Grammar number `idx` of the pool: the corpus first, then generated grammars.
pub fn grammar(rng: &mut Rng, idx: u64) -> GCase {
    let g = grammar_untagged(rng, idx);
    // number lexemes with multipleOf are compiled to intersections of regexes (class of its own for S1)
    if g.kind == GKind::Json && g.text.contains("multipleOf") && !g.has_tag("json_multipleof") {
        return g.tag("json_multipleof");
    }
    g
}

fn grammar_untagged(rng: &mut Rng, idx: u64) -> GCase {
    let c = corpus::all_corpus();
    if (idx as usize) < c.len() {
        return c[idx as usize].clone();
    }
    match rng.below(11) {
        10 => special_mix_grammar(rng, idx),
        0..=2 => {
            let gen = RxGen { allow_algebra: false, allow_raw_not: false, max_depth: 3 };
            let rx = gen_nonempty(rng, &gen);
            let mut text = rx.to_regex();
            if text.contains('/') && rng.chance(1, 2) {
                text = text.replace('/', "\\/");
            }
            GCase::regex(&format!("genrx{idx}"), &text).tag("gen_regex")
        }
        3..=4 => {
            let gen = RxGen { allow_algebra: true, allow_raw_not: false, max_depth: 3 };
            let rx = gen_nonempty(rng, &gen);
            let t = rx.to_lark_term(rng);
            let g = GCase::lark(&format!("genterm{idx}"), &format!("start: T\nT: {t}\n")).tag("gen_term");
            // lexemes whose remaining language can be empty without being syntactically empty
            let g = if rx.has_and() { g.tag("regex_intersection") } else { g };
            if rx.has_not() {
                g.tag("regex_complement")
            } else {
                g
            }
        }
        5..=7 => crate::gen_json::random_schema_case(rng, idx),
        _ => crate::gen_cfg::random_cfg_case(rng, idx),
    }
}

/// text and named special tokens in one sentence: `start: "a" <think> /[a-z]{1,3}/ </think> "!" | ...`
/// (the vocabulary built for such a grammar puts the special tokens at low ids, see `vocab::vsyn_ex`)
pub fn special_mix_grammar(rng: &mut Rng, idx: u64) -> GCase {
    let names: Vec<&str> = vocab::SPECIAL_NAMES[..vocab::SPECIAL_NAMES.len() - 1].iter().copied().filter(|n| !n.contains('"')).collect();
    let lits = ["\"a\"", "\"bc\"", "\"x y\"", "/[a-z]{1,3}/", "/[0-9]+/", "\"<\"", "\"\\n\""];
    let mut alts = vec![];
    for a in 0..1 + rng.below(3) {
        let mut parts: Vec<String> = vec![];
        // different first bytes per alternative keep the alternatives apart
        parts.push(format!("\"{}\"", ["p", "q", "r"][a]));
        for _ in 0..2 + rng.below(4) {
            if rng.chance(1, 2) {
                parts.push(rng.pick(&names).to_string());
            } else {
                parts.push(rng.pick(&lits).to_string());
            }
        }
        alts.push(parts.join(" "));
    }
    GCase::lark(&format!("specmix{idx}"), &format!("start: {}\n", alts.join("\n    | "))).tag("special_token_ref").tag("special_mix")
}

pub fn n_corpus() -> u64 {
    corpus::all_corpus().len() as u64
}

pub fn describe(ctx: &Ctx, g: &GCase, v: &Vocab) -> serde_json::Value {
    let _ = ctx;
    serde_json::json!({"grammar_kind": format!("{:?}", g.kind), "grammar": g.text, "name": g.name, "tags": g.tags, "vocab": v.name, "n_vocab": v.n()})
}

/// regex whose language is non-empty according to the reference DFA (productive grammar)
pub fn gen_nonempty(rng: &mut Rng, gen: &RxGen) -> crate::gen_regex::Rx {
    for _ in 0..20 {
        let rx = gen.gen(rng);
        if let Ok(d) = crate::ref_dfa::Dfa::from_rx(&rx) {
            if d.is_live(d.start) {
                return rx;
            }
        }
    }
    crate::gen_regex::Rx::lit("fallback")
}
