//! Random context-free grammars in Lark syntax over non-confusable terminals, together with
//! the harness's own plain-BNF copy (used by the reference Earley recogniser).

use crate::engine::GCase;
use crate::rng::Rng;

#[derive(Clone, Debug)]
pub enum Term {
    Lit(Vec<u8>),
    /// single-byte class, printed as /[...]/
    Class(Vec<u8>),
}

#[derive(Clone, Debug)]
pub enum E {
    Empty,
    T(usize),
    N(usize),
    /// parametric reference N::expr
    NP(usize, PExpr),
    Seq(Vec<E>),
    Alt(Vec<E>),
    Opt(Box<E>),
    Star(Box<E>),
    Plus(Box<E>),
    Rep(Box<E>, u32, Option<u32>),
}

#[derive(Clone, Debug, PartialEq)]
pub enum PExpr {
    Same,
    Const(u64),
    SetBit(u8),
    ClearBit(u8),
    Incr(u8, u8),
    Decr(u8, u8),
    BitOr(u64),
    BitAnd(u64),
}

#[derive(Clone, Debug, PartialEq)]
pub enum PCond {
    True,
    BitClear(u8),
    BitSet(u8),
    IsOnes(u8, u8),
    IsZeros(u8, u8),
    Eq(u8, u8, u64),
    Ne(u8, u8, u64),
    Lt(u8, u8, u64),
    Le(u8, u8, u64),
    Gt(u8, u8, u64),
    Ge(u8, u8, u64),
    BitCountEq(u8, u8, u32),
    BitCountLt(u8, u8, u32),
    BitCountGe(u8, u8, u32),
    And(Box<PCond>, Box<PCond>),
    Or(Box<PCond>, Box<PCond>),
    Not(Box<PCond>),
}

fn bits(p: u64, lo: u8, hi: u8) -> u64 {
    let w = (hi - lo) as u32;
    let m = if w >= 64 { u64::MAX } else { (1u64 << w) - 1 };
    (p >> lo) & m
}

impl PExpr {
    pub fn eval(&self, p: u64) -> u64 {
        match self {
            PExpr::Same => p,
            PExpr::Const(v) => *v,
            PExpr::SetBit(k) => p | (1 << k),
            PExpr::ClearBit(k) => p & !(1 << k),
            PExpr::Incr(lo, hi) => {
                let w = (hi - lo) as u32;
                let m = if w >= 64 { u64::MAX } else { (1u64 << w) - 1 };
                if bits(p, *lo, *hi) == m {
                    p
                } else {
                    p.wrapping_add(1 << lo)
                }
            }
            PExpr::Decr(lo, hi) => {
                if bits(p, *lo, *hi) == 0 {
                    p
                } else {
                    p.wrapping_sub(1 << lo)
                }
            }
            PExpr::BitOr(v) => p | v,
            PExpr::BitAnd(v) => p & v,
        }
    }
    pub fn lark(&self) -> String {
        match self {
            PExpr::Same => "_".into(),
            PExpr::Const(v) => format!("0x{v:x}"),
            PExpr::SetBit(k) => format!("set_bit({k})"),
            PExpr::ClearBit(k) => format!("clear_bit({k})"),
            PExpr::Incr(lo, hi) => format!("incr([{lo}:{hi}])"),
            PExpr::Decr(lo, hi) => format!("decr([{lo}:{hi}])"),
            PExpr::BitOr(v) => format!("bit_or(0x{v:x})"),
            PExpr::BitAnd(v) => format!("bit_and(0x{v:x})"),
        }
    }
}

impl PCond {
    pub fn eval(&self, p: u64) -> bool {
        match self {
            PCond::True => true,
            PCond::BitClear(k) => (p >> k) & 1 == 0,
            PCond::BitSet(k) => (p >> k) & 1 == 1,
            PCond::IsOnes(lo, hi) => {
                let w = (hi - lo) as u32;
                bits(p, *lo, *hi) == if w >= 64 { u64::MAX } else { (1u64 << w) - 1 }
            }
            PCond::IsZeros(lo, hi) => bits(p, *lo, *hi) == 0,
            PCond::Eq(lo, hi, v) => bits(p, *lo, *hi) == *v,
            PCond::Ne(lo, hi, v) => bits(p, *lo, *hi) != *v,
            PCond::Lt(lo, hi, v) => bits(p, *lo, *hi) < *v,
            PCond::Le(lo, hi, v) => bits(p, *lo, *hi) <= *v,
            PCond::Gt(lo, hi, v) => bits(p, *lo, *hi) > *v,
            PCond::Ge(lo, hi, v) => bits(p, *lo, *hi) >= *v,
            PCond::BitCountEq(lo, hi, k) => bits(p, *lo, *hi).count_ones() == *k,
            PCond::BitCountLt(lo, hi, k) => bits(p, *lo, *hi).count_ones() < *k,
            PCond::BitCountGe(lo, hi, k) => bits(p, *lo, *hi).count_ones() >= *k,
            PCond::And(a, b) => a.eval(p) && b.eval(p),
            PCond::Or(a, b) => a.eval(p) || b.eval(p),
            PCond::Not(a) => !a.eval(p),
        }
    }
    pub fn lark(&self) -> String {
        match self {
            PCond::True => "true".into(),
            PCond::BitClear(k) => format!("bit_clear({k})"),
            PCond::BitSet(k) => format!("bit_set({k})"),
            PCond::IsOnes(lo, hi) => format!("is_ones([{lo}:{hi}])"),
            PCond::IsZeros(lo, hi) => format!("is_zeros([{lo}:{hi}])"),
            PCond::Eq(lo, hi, v) => format!("eq([{lo}:{hi}], {v})"),
            PCond::Ne(lo, hi, v) => format!("ne([{lo}:{hi}], {v})"),
            PCond::Lt(lo, hi, v) => format!("lt([{lo}:{hi}], {v})"),
            PCond::Le(lo, hi, v) => format!("le([{lo}:{hi}], {v})"),
            PCond::Gt(lo, hi, v) => format!("gt([{lo}:{hi}], {v})"),
            PCond::Ge(lo, hi, v) => format!("ge([{lo}:{hi}], {v})"),
            PCond::BitCountEq(lo, hi, k) => format!("bit_count_eq([{lo}:{hi}], {k})"),
            PCond::BitCountLt(lo, hi, k) => format!("bit_count_lt([{lo}:{hi}], {k})"),
            PCond::BitCountGe(lo, hi, k) => format!("bit_count_ge([{lo}:{hi}], {k})"),
            PCond::And(a, b) => format!("and({}, {})", a.lark(), b.lark()),
            PCond::Or(a, b) => format!("or({}, {})", a.lark(), b.lark()),
            PCond::Not(a) => format!("not({})", a.lark()),
        }
    }
}

/// One rule: name, parametric?, alternatives with conditions.
#[derive(Clone, Debug)]
pub struct Rule {
    pub name: String,
    pub parametric: bool,
    pub alts: Vec<(E, PCond)>,
}

#[derive(Clone, Debug)]
pub struct Cfg {
    pub terms: Vec<Term>,
    /// whether terminal i is printed as a named TERMINAL (vs inline literal)
    pub named: Vec<bool>,
    pub rules: Vec<Rule>,
    /// rule 0 is start
    pub tags: Vec<String>,
}

fn lark_str(b: &[u8]) -> String {
    serde_json::to_string(&String::from_utf8_lossy(b).to_string()).unwrap()
}

fn class_rx(bs: &[u8]) -> String {
    let mut s = String::from("/[");
    for &b in bs {
        let c = b as char;
        if "\\]^-[/".contains(c) {
            s.push('\\');
        }
        s.push(c);
    }
    s.push_str("]/");
    s
}

impl Cfg {
    fn term_lark(&self, i: usize) -> String {
        if self.named[i] {
            format!("T{i}")
        } else {
            match &self.terms[i] {
                Term::Lit(b) => lark_str(b),
                Term::Class(bs) => class_rx(bs),
            }
        }
    }

    fn e_lark(&self, e: &E, top: bool) -> String {
        match e {
            E::Empty => "\"\"".into(),
            E::T(i) => self.term_lark(*i),
            E::N(i) => self.rules[*i].name.clone(),
            E::NP(i, p) => format!("{}::{}", self.rules[*i].name, p.lark()),
            E::Seq(v) => {
                let s = v.iter().map(|x| self.e_lark(x, false)).collect::<Vec<_>>().join(" ");
                if top {
                    s
                } else {
                    format!("({s})")
                }
            }
            E::Alt(v) => format!("({})", v.iter().map(|x| self.e_lark(x, true)).collect::<Vec<_>>().join(" | ")),
            E::Opt(x) => format!("{}?", self.e_lark(&wrap(x), false)),
            E::Star(x) => format!("{}*", self.e_lark(&wrap(x), false)),
            E::Plus(x) => format!("{}+", self.e_lark(&wrap(x), false)),
            E::Rep(x, m, n) => {
                let b = self.e_lark(&wrap(x), false);
                match n {
                    Some(n) if n == m => format!("{b}{{{m}}}"),
                    Some(n) => format!("{b}{{{m},{n}}}"),
                    None => format!("{b}{{{m},}}"),
                }
            }
        }
    }

    pub fn to_lark(&self) -> String {
        let mut s = String::new();
        for (ri, r) in self.rules.iter().enumerate() {
            let _ = ri;
            let name = r.name.clone();
            let head = if r.parametric { format!("{name}::_") } else { name };
            for (ai, (e, c)) in r.alts.iter().enumerate() {
                if ai == 0 {
                    s.push_str(&format!("{head}: "));
                } else {
                    s.push_str("    | ");
                }
                s.push_str(&self.e_lark(e, true));
                if *c != PCond::True {
                    s.push_str(&format!(" %if {}", c.lark()));
                }
                s.push('\n');
            }
        }
        for (i, t) in self.terms.iter().enumerate() {
            if self.named[i] {
                match t {
                    Term::Lit(b) => s.push_str(&format!("T{i}: {}\n", lark_str(b))),
                    Term::Class(bs) => s.push_str(&format!("T{i}: {}\n", class_rx(bs))),
                }
            }
        }
        s
    }

    pub fn to_case(&self, name: &str) -> GCase {
        let mut g = GCase::lark(name, &self.to_lark());
        g.tags = self.tags.clone();
        g.tags.push("gen_cfg".into());
        g
    }

    /// byte alphabet of the grammar
    pub fn alphabet(&self) -> Vec<u8> {
        let mut v = vec![];
        for t in &self.terms {
            match t {
                Term::Lit(b) => v.extend_from_slice(b),
                Term::Class(b) => v.extend_from_slice(b),
            }
        }
        v.sort();
        v.dedup();
        v
    }
}

fn wrap(x: &E) -> E {
    match x {
        E::T(_) | E::N(_) | E::NP(_, _) | E::Alt(_) => x.clone(),
        _ => E::Seq(vec![x.clone()]),
    }
}

const LITS: &[&[u8]] = &[b"a", b"bc", b"def", b"(", b")", b"[[", b"]]", b"+", b",", b"\xc3\xa9", b"\xe6\x97\xa5\xe6\x9c\xac", b"if ", b"=>", b"g", b"hh"];
const CLASSES: &[&[u8]] = &[b"0123", b"xyz", b"PQ", b"89"];

pub fn random_cfg(rng: &mut Rng) -> Cfg {
    // terminals: distinct first bytes by construction of the pools
    let mut lit_ix: Vec<usize> = (0..LITS.len()).collect();
    rng.shuffle(&mut lit_ix);
    let nl = 2 + rng.below(4);
    let mut terms: Vec<Term> = lit_ix[..nl].iter().map(|&i| Term::Lit(LITS[i].to_vec())).collect();
    let nc = rng.below(3);
    let mut cl_ix: Vec<usize> = (0..CLASSES.len()).collect();
    rng.shuffle(&mut cl_ix);
    for &i in &cl_ix[..nc] {
        terms.push(Term::Class(CLASSES[i].to_vec()));
    }
    let named: Vec<bool> = terms.iter().map(|_| rng.chance(1, 3)).collect();
    let nt = terms.len();
    let nr = 1 + rng.below(4);
    let mut rules = vec![];
    for ri in 0..nr {
        let mut alts = vec![];
        // base alternative: terminals only (keeps every nonterminal productive)
        let base = if rng.chance(1, 4) {
            E::Empty
        } else {
            let n = 1 + rng.below(2);
            E::Seq((0..n).map(|_| E::T(rng.below(nt))).collect())
        };
        alts.push((base, PCond::True));
        let na = rng.below(3) + if ri == 0 { 1 } else { 0 };
        for _ in 0..na {
            alts.push((gen_e(rng, nt, nr, 2), PCond::True));
        }
        rng.shuffle(&mut alts);
        rules.push(Rule { name: if ri == 0 { "start".to_string() } else { format!("r{ri}") }, parametric: false, alts });
    }
    Cfg { terms, named, rules, tags: vec![] }
}

fn gen_e(rng: &mut Rng, nt: usize, nr: usize, depth: u32) -> E {
    if depth == 0 || rng.chance(1, 4) {
        return if rng.chance(1, 2) { E::T(rng.below(nt)) } else { E::N(rng.below(nr)) };
    }
    match rng.below(10) {
        0..=3 => {
            let n = 2 + rng.below(2);
            E::Seq((0..n).map(|_| gen_e(rng, nt, nr, depth - 1)).collect())
        }
        4 => {
            let n = 2 + rng.below(2);
            E::Alt((0..n).map(|_| gen_e(rng, nt, nr, depth - 1)).collect())
        }
        5 => E::Opt(Box::new(gen_e(rng, nt, nr, depth - 1))),
        6 => E::Star(Box::new(gen_e(rng, nt, nr, depth - 1))),
        7 => E::Plus(Box::new(gen_e(rng, nt, nr, depth - 1))),
        _ => {
            if rng.chance(1, 5) {
                // wide bounded repetition of a terminal (the builder expands n >= 12 differently)
                let m = rng.below(4) as u32;
                let n = m + 9 + rng.below(17) as u32;
                return E::Rep(Box::new(E::T(rng.below(nt))), m, Some(n));
            }
            let m = rng.below(3) as u32;
            let n = if rng.chance(1, 4) { None } else { Some(m + rng.below(3) as u32) };
            let n = if n == Some(0) { Some(1) } else { n };
            E::Rep(Box::new(gen_e(rng, nt, nr, depth - 1)), m, n)
        }
    }
}

/// template family of parametric grammars (docs/parametric.md shapes with random parameters)
pub fn random_parametric(rng: &mut Rng) -> Cfg {
    let k = 2 + rng.below(3); // number of elements
    let lits: Vec<&[u8]> = vec![b"a", b"b", b"c", b"d", b"e"];
    let terms: Vec<Term> = lits[..k].iter().map(|l| Term::Lit(l.to_vec())).collect();
    let named = vec![false; k];
    let kind = rng.below(7);
    let mut alts = vec![];
    let mut tags = vec!["parametric".to_string()];
    if kind >= 5 {
        // single-alternative rules that carry their own %if guard and are referenced once with the
        // neutral parameter `_` (candidates for inlining by the optimiser)
        let lo = rng.below(3) as u64;
        let hi = lo + 1 + rng.below(4) as u64;
        tags.push("guarded_single_rule".into());
        let fin_body = if kind == 5 { E::Seq(vec![E::T(1 % k)]) } else { E::Seq(vec![E::T(1 % k), E::NP(3, PExpr::Same)]) };
        let mut rules = vec![
            Rule { name: "start".into(), parametric: false, alts: vec![(E::NP(1, PExpr::Const(0)), PCond::True)] },
            Rule {
                name: "cnt".into(),
                parametric: true,
                alts: vec![(E::Seq(vec![E::T(0), E::NP(1, PExpr::Incr(0, 8))]), PCond::Lt(0, 8, hi)), (E::NP(2, PExpr::Same), PCond::True)],
            },
            Rule { name: "fin".into(), parametric: true, alts: vec![(fin_body, PCond::Ge(0, 8, lo))] },
        ];
        if kind == 6 {
            // a second guarded single-rule symbol behind the first one
            // mostly a guard that holds whenever `fin` was entered; sometimes one that can fail there
            // (then some reachable (symbol, value) pairs are unproductive: tagged class)
            let c = if rng.chance(3, 4) { PCond::Ge(0, 8, lo) } else { PCond::Lt(0, 8, hi.saturating_sub(1).max(1)) };
            rules.push(Rule { name: "tail".into(), parametric: true, alts: vec![(E::Seq(vec![E::T(0)]), c)] });
        }
        return Cfg { terms, named, rules, tags };
    }
    let start_alts;
    match kind {
        0 => {
            // permutation
            alts.push((E::Empty, PCond::IsOnes(0, k as u8)));
            for i in 0..k {
                alts.push((E::Seq(vec![E::T(i), E::NP(1, PExpr::SetBit(i as u8))]), PCond::BitClear(i as u8)));
            }
            tags.push("perm".into());
            start_alts = vec![(E::NP(1, PExpr::Const(0)), PCond::True)];
        }
        1 => {
            // at least once each
            alts.push((E::Empty, PCond::IsOnes(0, k as u8)));
            for i in 0..k {
                alts.push((E::Seq(vec![E::T(i), E::NP(1, PExpr::SetBit(i as u8))]), PCond::True));
            }
            tags.push("atleast".into());
            start_alts = vec![(E::NP(1, PExpr::Const(0)), PCond::True)];
        }
        2 => {
            // bounded counters, 3 bits each
            for i in 0..k {
                let lo = (3 * i) as u8;
                let lim = 1 + rng.below(6) as u64;
                alts.push((E::Seq(vec![E::T(i), E::NP(1, PExpr::Incr(lo, lo + 3))]), PCond::Lt(lo, lo + 3, lim)));
            }
            alts.push((E::Empty, PCond::True));
            tags.push("counters".into());
            start_alts = vec![(E::NP(1, PExpr::Const(0)), PCond::True)];
        }
        3 => {
            // pick between lo and hi distinct elements
            let hi = 1 + rng.below(k) as u32;
            let lo = rng.below(hi as usize + 1) as u32;
            alts.push((E::Empty, PCond::BitCountGe(0, 64, lo)));
            for i in 0..k {
                alts.push((
                    E::Seq(vec![E::T(i), E::NP(1, PExpr::SetBit(i as u8))]),
                    PCond::And(Box::new(PCond::BitClear(i as u8)), Box::new(PCond::BitCountLt(0, 64, hi + 1))),
                ));
            }
            // hi+1 because bit_count_lt(_, hi+1) allows up to hi elements
            tags.push("pick".into());
            start_alts = vec![(E::NP(1, PExpr::Const(0)), PCond::True)];
        }
        _ => {
            // a*b* with total length < L via saturating counter on the full word; then decr back
            let l = 2 + rng.below(8) as u64;
            alts.push((E::Seq(vec![E::T(0), E::NP(1, PExpr::Incr(0, 8))]), PCond::Lt(0, 8, l)));
            alts.push((E::NP(2, PExpr::Same), PCond::True));
            tags.push("len_lt".into());
            start_alts = vec![(E::NP(1, PExpr::Const(0)), PCond::True)];
            let r2 = Rule {
                name: "q".into(),
                parametric: true,
                alts: vec![
                    (E::Seq(vec![E::T(1), E::NP(2, PExpr::Incr(0, 8))]), PCond::Lt(0, 8, l)),
                    (E::Empty, PCond::Or(Box::new(PCond::Ge(0, 8, 1)), Box::new(PCond::Not(Box::new(PCond::Ne(0, 8, 0)))))),
                ],
            };
            let rules = vec![
                Rule { name: "start".into(), parametric: false, alts: start_alts },
                Rule { name: "p".into(), parametric: true, alts },
                r2,
            ];
            return Cfg { terms, named, rules, tags };
        }
    }
    let rules = vec![
        Rule { name: "start".into(), parametric: false, alts: start_alts },
        Rule { name: "p".into(), parametric: true, alts },
    ];
    Cfg { terms, named, rules, tags }
}

pub fn random_cfg_case(rng: &mut Rng, idx: u64) -> GCase {
    let (cfg, name) = if rng.chance(1, 4) {
        (random_parametric(rng), format!("genparam{idx}"))
    } else {
        (random_cfg(rng), format!("gencfg{idx}"))
    };
    let g = cfg.to_case(&name);
    // the engine has no productivity pruning (finding P1): grammars in which the reference
    // model had to prune something reachable are a class of their own
    match crate::ref_earley::Bnf::from_cfg(&cfg) {
        Ok(b) if b.pruned || !b.start_productive() => g.tag("unproductive"),
        Ok(_) => g,
        Err(_) => g.tag("productivity_unknown"),
    }
}

/// hand-written grammars with their harness copy
pub fn handwritten() -> Vec<Cfg> {
    let lit = |s: &str| Term::Lit(s.as_bytes().to_vec());
    let mut v = vec![];
    // arithmetic: e: t | e "+" t ; t: f | t "*" f ; f: D | "(" e ")"
    v.push(Cfg {
        terms: vec![lit("+"), lit("*"), lit("("), lit(")"), Term::Class(b"012".to_vec())],
        named: vec![false, false, false, false, true],
        rules: vec![
            Rule { name: "start".into(), parametric: false, alts: vec![(E::N(1), PCond::True)] },
            Rule { name: "e".into(), parametric: false, alts: vec![(E::N(2), PCond::True), (E::Seq(vec![E::N(1), E::T(0), E::N(2)]), PCond::True)] },
            Rule { name: "t".into(), parametric: false, alts: vec![(E::N(3), PCond::True), (E::Seq(vec![E::N(2), E::T(1), E::N(3)]), PCond::True)] },
            Rule { name: "f".into(), parametric: false, alts: vec![(E::T(4), PCond::True), (E::Seq(vec![E::T(2), E::N(1), E::T(3)]), PCond::True)] },
        ],
        tags: vec!["hand_arith".into()],
    });
    // balanced brackets with empty production
    v.push(Cfg {
        terms: vec![lit("("), lit(")"), lit("[["), lit("]]")],
        named: vec![false; 4],
        rules: vec![
            Rule { name: "start".into(), parametric: false, alts: vec![(E::N(1), PCond::True)] },
            Rule {
                name: "s".into(),
                parametric: false,
                alts: vec![
                    (E::Empty, PCond::True),
                    (E::Seq(vec![E::T(0), E::N(1), E::T(1), E::N(1)]), PCond::True),
                    (E::Seq(vec![E::T(2), E::N(1), E::T(3), E::N(1)]), PCond::True),
                ],
            },
        ],
        tags: vec!["hand_brackets".into()],
    });
    // a^n b^n
    v.push(Cfg {
        terms: vec![lit("a"), lit("bc")],
        named: vec![false, true],
        rules: vec![
            Rule { name: "start".into(), parametric: false, alts: vec![(E::N(1), PCond::True)] },
            Rule { name: "x".into(), parametric: false, alts: vec![(E::Seq(vec![E::T(0), E::N(1), E::T(1)]), PCond::True), (E::Seq(vec![E::T(0), E::T(1)]), PCond::True)] },
        ],
        tags: vec!["hand_anbn".into()],
    });
    // nullable chain + hidden left recursion: s: n s "a" | "" ; n: "" | "g"
    v.push(Cfg {
        terms: vec![lit("a"), lit("g")],
        named: vec![false, false],
        rules: vec![
            Rule { name: "start".into(), parametric: false, alts: vec![(E::N(1), PCond::True)] },
            Rule { name: "s".into(), parametric: false, alts: vec![(E::Seq(vec![E::N(2), E::N(1), E::T(0)]), PCond::True), (E::Empty, PCond::True)] },
            Rule { name: "n".into(), parametric: false, alts: vec![(E::Empty, PCond::True), (E::T(1), PCond::True)] },
        ],
        tags: vec!["hand_hidden_lrec".into()],
    });
    // ambiguous: e: e e | "a" | ""
    v.push(Cfg {
        terms: vec![lit("a"), lit("bc")],
        named: vec![false, false],
        rules: vec![
            Rule { name: "start".into(), parametric: false, alts: vec![(E::N(1), PCond::True)] },
            Rule { name: "e".into(), parametric: false, alts: vec![(E::Seq(vec![E::N(1), E::N(1)]), PCond::True), (E::T(0), PCond::True), (E::T(1), PCond::True), (E::Empty, PCond::True)] },
        ],
        tags: vec!["hand_ambig".into()],
    });
    // mutual recursion with repetition operators
    v.push(Cfg {
        terms: vec![lit("a"), lit("bc"), lit(","), Term::Class(b"xyz".to_vec())],
        named: vec![false, false, false, false],
        rules: vec![
            Rule { name: "start".into(), parametric: false, alts: vec![(E::Seq(vec![E::N(1), E::Star(Box::new(E::Seq(vec![E::T(2), E::N(1)])))]), PCond::True)] },
            Rule { name: "p".into(), parametric: false, alts: vec![(E::Seq(vec![E::T(0), E::Opt(Box::new(E::N(2)))]), PCond::True), (E::Rep(Box::new(E::T(3)), 2, Some(3)), PCond::True)] },
            Rule { name: "q".into(), parametric: false, alts: vec![(E::Seq(vec![E::T(1), E::Plus(Box::new(E::N(1)))]), PCond::True)] },
        ],
        tags: vec!["hand_mutual".into()],
    });
    v
}
