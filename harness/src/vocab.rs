//! Vocabularies built offline: single-byte, synthetic multi-byte, truncated real BPE.

use crate::rng::Rng;
use anyhow::Result;
use std::sync::Arc;
use toktrie::{TokEnv, TokRxInfo, TokTrie, TokenId, TokenizerEnv};

/// Harness-owned tokenizer env: greedy tokenisation, canonical flag selectable.
pub struct HEnv {
    trie: TokTrie,
    canonical: bool,
}

impl TokenizerEnv for HEnv {
    fn tok_trie(&self) -> &TokTrie {
        &self.trie
    }
    fn tokenize_bytes(&self, s: &[u8]) -> Vec<TokenId> {
        self.trie.greedy_tokenize(s)
    }
    fn tokenize_is_canonical(&self) -> bool {
        self.canonical
    }
}

#[derive(Clone)]
pub struct Vocab {
    pub env: TokEnv,
    pub name: String,
    pub words: Vec<Vec<u8>>,
    pub specials: Vec<u32>,
    pub eos: u32,
    /// every EOS id (primary first); `[eos]` unless built by `with_extra_eos`
    pub eos_all: Vec<u32>,
    pub canonical: bool,
}

impl Vocab {
    pub fn n(&self) -> usize {
        self.words.len()
    }
    pub fn trie(&self) -> &TokTrie {
        self.env.tok_trie()
    }
    pub fn is_special(&self, t: u32) -> bool {
        let w = &self.words[t as usize];
        w.is_empty() || w[0] == 0xFF
    }
    /// id of the single-byte token for `b` (first id whose bytes are exactly [b])
    pub fn byte_token(&self, b: u8) -> Option<u32> {
        self.trie().token_id(&[b])
    }
    pub fn from_words(name: &str, words: Vec<Vec<u8>>, eos: u32, canonical: bool) -> Vocab {
        let info = TokRxInfo::new(words.len() as u32, eos);
        let trie = TokTrie::from(&info, &words);
        let specials = (0..words.len() as u32)
            .filter(|&t| {
                let w = &words[t as usize];
                w.is_empty() || (w[0] == 0xFF && w.len() > 1)
            })
            .collect();
        Vocab {
            env: Arc::new(HEnv { trie, canonical }),
            name: name.to_string(),
            words,
            specials,
            eos,
            eos_all: vec![eos],
            canonical,
        }
    }
    /// same words under a harness env whose trie has several EOS ids (primary unchanged)
    pub fn with_extra_eos(&self, extra: &[u32]) -> Vocab {
        let mut all = vec![self.eos];
        for &e in extra {
            if !all.contains(&e) {
                all.push(e);
            }
        }
        let trie = self.trie().with_eos_tokens(&all);
        let mut v = self.clone();
        v.env = Arc::new(HEnv { trie, canonical: self.canonical });
        v.eos_all = all;
        v.name = format!("{}+eos{}", self.name, v.eos_all.len());
        v
    }
    pub fn is_eos(&self, t: u32) -> bool {
        self.eos_all.contains(&t)
    }
}

pub const SPECIAL_NAMES: &[&str] = &[
    "<a>", "<b>", "<ab>", "<|tool|>", "<think>", "</think>", "<\"x\">", "<1>", "<x>", "<|end|>",
];

fn push_specials(words: &mut Vec<Vec<u8>>) -> u32 {
    for n in SPECIAL_NAMES {
        let mut w = vec![0xFFu8];
        w.extend_from_slice(n.as_bytes());
        words.push(w);
    }
    (words.len() - 1) as u32
}

/// 256 single bytes (id == byte) + special tokens; EOS is the last id.
pub fn v1(canonical: bool) -> Vocab {
    let mut words: Vec<Vec<u8>> = (0..=255u8).map(|b| vec![b]).collect();
    let eos = push_specials(&mut words);
    Vocab::from_words(if canonical { "V1c" } else { "V1" }, words, eos, canonical)
}

pub const GENERIC_TEXT: &[&str] = &[
    "{\"name\": \"John\", \"age\": 30, \"items\": [1, 2.5, -3e10, true, false, null], \"nested\": {\"a\": \"b\\n\\\"c\\\"\"}}",
    "{\"a\":1,\"b\":[\"x\",\"y\"],\"c\":{\"d\":null}}",
    "The quick brown fox jumps over the lazy dog. 0123456789 +-*/()[]{}<>=!&|~^%$#@",
    "SELECT * FROM table WHERE id = 42 AND name LIKE 'foo%';\n\tdef f(x): return x + 1\n",
    "aaaaaaaa abababab bbbbbbbb aabbaabb xxxxxxxx xyxyxyxy abcabcabc",
    "2024-01-31T23:59:59Z 192.168.0.1 user@example.com https://example.com/path?q=1#frag 550e8400-e29b-41d4-a716-446655440000",
    "caf\u{e9} na\u{ef}ve \u{65e5}\u{672c}\u{8a9e} \u{1f422}\u{1f600} \u{444}\u{44b}\u{432}\u{430} \u{3b1}\u{3b2}\u{3b3}",
    "\", \"\": \"},{\"]],[[\" ]}\n\n  \t\"}, {\":\", \",\"\":[{\"\":",
];

/// Synthetic multi-byte vocabulary: all 256 bytes, `n_multi` tokens cut out of `samples`
/// (so that they straddle lexeme boundaries / end inside UTF-8 characters / chain as
/// prefixes), a few duplicates, a few empty entries, special tokens; EOS last.
pub fn vsyn(rng: &mut Rng, samples: &[Vec<u8>], n_multi: usize, canonical: bool, name: &str) -> Vocab {
    vsyn_ex(rng, samples, n_multi, canonical, name, None)
}

/// `low`: Some(true) forces the layout with special tokens at low ids, None picks it one time in four
pub fn vsyn_ex(rng: &mut Rng, samples: &[Vec<u8>], n_multi: usize, canonical: bool, name: &str, low: Option<bool>) -> Vocab {
    let mut words: Vec<Vec<u8>> = (0..=255u8).map(|b| vec![b]).collect();
    let mut seen: std::collections::HashSet<Vec<u8>> = words.iter().cloned().collect();
    let nonempty: Vec<&Vec<u8>> = samples.iter().filter(|s| s.len() >= 2).collect();
    let mut attempts = 0;
    while words.len() < 256 + n_multi && attempts < n_multi * 30 && !nonempty.is_empty() {
        attempts += 1;
        let s = *rng.pick(&nonempty);
        let maxlen = if rng.chance(1, 12) { 40 } else if rng.chance(1, 3) { 8 } else { 4 };
        let len = 2 + rng.below(std::cmp::min(maxlen, s.len()) - 1);
        let len = std::cmp::min(len, s.len());
        let off = rng.below(s.len() - len + 1);
        let w = s[off..off + len].to_vec();
        if w.contains(&0xFF) {
            continue;
        }
        if seen.insert(w.clone()) {
            // prefix chain: also add all prefixes sometimes
            if rng.chance(1, 6) {
                for k in 2..w.len() {
                    let p = w[..k].to_vec();
                    if seen.insert(p.clone()) {
                        words.push(p);
                    }
                }
            }
            words.push(w);
        } else if rng.chance(1, 10) {
            // duplicate under a second id
            words.push(w);
        }
    }
    // a few empty entries
    for _ in 0..rng.below(3) {
        words.push(vec![]);
    }
    let low = low.unwrap_or_else(|| rng.chance(1, 4));
    if low && words.len() > 200 {
        // layout of many real tokenizers: special tokens at LOW ids (1, 2, 10, 100..110) in front of / between the
        // ordinary tokens instead of at the end; only the EOS stays last
        let pos = [1usize, 2, 10, 100, 101, 105, 107, 109, 110];
        for (n, p) in SPECIAL_NAMES[..SPECIAL_NAMES.len() - 1].iter().zip(pos.iter()) {
            let mut w = vec![0xFFu8];
            w.extend_from_slice(n.as_bytes());
            words.insert(*p, w);
        }
        let mut w = vec![0xFFu8];
        w.extend_from_slice(SPECIAL_NAMES[SPECIAL_NAMES.len() - 1].as_bytes());
        words.push(w);
        let eos = (words.len() - 1) as u32;
        return Vocab::from_words(&format!("{name}lo"), words, eos, canonical);
    }
    let eos = push_specials(&mut words);
    Vocab::from_words(name, words, eos, canonical)
}

pub fn generic_samples() -> Vec<Vec<u8>> {
    GENERIC_TEXT.iter().map(|s| s.as_bytes().to_vec()).collect()
}

fn find_cl100k() -> Option<std::path::PathBuf> {
    if let Ok(p) = std::env::var("LLGV_CL100K") {
        return Some(p.into());
    }
    let home = std::env::var("CARGO_HOME")
        .unwrap_or_else(|_| format!("{}/.cargo", std::env::var("HOME").unwrap_or("/root".into())));
    let base = std::path::Path::new(&home).join("registry/src");
    for e in std::fs::read_dir(base).ok()? {
        let p = e.ok()?.path().join("tiktoken-rs-0.7.0/assets/cl100k_base.tiktoken");
        if p.exists() {
            return Some(p);
        }
    }
    None
}

fn b64(s: &str) -> Option<Vec<u8>> {
    let mut out = Vec::new();
    let mut acc = 0u32;
    let mut bits = 0;
    for c in s.bytes() {
        let v = match c {
            b'A'..=b'Z' => c - b'A',
            b'a'..=b'z' => c - b'a' + 26,
            b'0'..=b'9' => c - b'0' + 52,
            b'+' => 62,
            b'/' => 63,
            b'=' => break,
            _ => return None,
        } as u32;
        acc = (acc << 6) | v;
        bits += 6;
        if bits >= 8 {
            bits -= 8;
            out.push((acc >> bits) as u8);
            acc &= (1 << bits) - 1;
        }
    }
    Some(out)
}

pub const CL100K_PAT: &str = r"(?i:'s|'t|'re|'ve|'m|'ll|'d)|[^\r\n\p{L}\p{N}]?\p{L}+|\p{N}{1,3}| ?[^\s\p{L}\p{N}]+[\r\n]*|\s*[\r\n]+|\s+(?!\S)|\s+";

pub fn cl100k_ranks(n: usize) -> Result<Vec<(Vec<u8>, u32)>> {
    let p = find_cl100k().ok_or_else(|| anyhow::anyhow!("cl100k_base.tiktoken not found"))?;
    let txt = std::fs::read_to_string(p)?;
    let mut enc = Vec::new();
    for line in txt.lines() {
        let mut it = line.split_whitespace();
        let (Some(t), Some(r)) = (it.next(), it.next()) else { continue };
        let rank: u32 = r.parse()?;
        if (rank as usize) < n {
            enc.push((b64(t).ok_or_else(|| anyhow::anyhow!("b64"))?, rank));
        }
    }
    Ok(enc)
}

/// First `n` ranks of cl100k_base + `<|endoftext|>` through the real tiktoken adapter.
pub fn vbpe(n: usize) -> Result<Vocab> {
    let enc = cl100k_ranks(n)?;
    let eos = n as u32;
    let specials = vec![("<|endoftext|>".to_string(), eos), ("<|tool|>".to_string(), eos + 1)];
    let tk = toktrie_tiktoken::TikTokenBPE::new(enc, specials, CL100K_PAT, None, eos)?;
    let env = tk.to_env();
    let words: Vec<Vec<u8>> = (0..env.tok_trie().vocab_size() as u32)
        .map(|t| env.tok_trie().token(t).to_vec())
        .collect();
    let specials = (0..words.len() as u32)
        .filter(|&t| words[t as usize].is_empty() || (words[t as usize][0] == 0xFF && words[t as usize].len() > 1))
        .collect();
    Ok(Vocab {
        env,
        name: format!("Vbpe{n}"),
        words,
        specials,
        eos,
        eos_all: vec![eos],
        canonical: true,
    })
}

/// BPE words under a non-canonical greedy env (masks are never narrowed by forcing)
pub fn vbpe_noncanon(n: usize) -> Result<Vocab> {
    let b = vbpe(n)?;
    let mut v = Vocab::from_words(&format!("Vbpe{n}nc"), b.words.clone(), b.eos, false);
    v.specials = b.specials.clone();
    Ok(v)
}
