//! Small deterministic PRNG (splitmix64 seeded xoshiro256**), no external crates.

#[derive(Clone, Debug)]
pub struct Rng {
    s: [u64; 4],
}

fn splitmix(x: &mut u64) -> u64 {
    *x = x.wrapping_add(0x9E3779B97F4A7C15);
    let mut z = *x;
    z = (z ^ (z >> 30)).wrapping_mul(0xBF58476D1CE4E5B9);
    z = (z ^ (z >> 27)).wrapping_mul(0x94D049BB133111EB);
    z ^ (z >> 31)
}

impl Rng {
    pub fn new(seed: u64) -> Self {
        let mut x = seed ^ 0x5851F42D4C957F2D;
        let s = [splitmix(&mut x), splitmix(&mut x), splitmix(&mut x), splitmix(&mut x)];
        Rng { s }
    }
    /// derive an independent stream
    pub fn fork(&mut self, tag: u64) -> Rng {
        Rng::new(self.next_u64() ^ tag.wrapping_mul(0x9E3779B97F4A7C15))
    }
    pub fn next_u64(&mut self) -> u64 {
        let r = self.s[1].wrapping_mul(5).rotate_left(7).wrapping_mul(9);
        let t = self.s[1] << 17;
        self.s[2] ^= self.s[0];
        self.s[3] ^= self.s[1];
        self.s[1] ^= self.s[2];
        self.s[0] ^= self.s[3];
        self.s[2] ^= t;
        self.s[3] = self.s[3].rotate_left(45);
        r
    }
    /// uniform in [0, n)
    pub fn below(&mut self, n: usize) -> usize {
        if n == 0 {
            return 0;
        }
        (self.next_u64() % (n as u64)) as usize
    }
    /// uniform in [lo, hi]
    pub fn range(&mut self, lo: i64, hi: i64) -> i64 {
        if hi <= lo {
            return lo;
        }
        lo + (self.next_u64() % ((hi - lo + 1) as u64)) as i64
    }
    pub fn chance(&mut self, num: u32, den: u32) -> bool {
        (self.next_u64() % den as u64) < num as u64
    }
    pub fn pick<'a, T>(&mut self, xs: &'a [T]) -> &'a T {
        &xs[self.below(xs.len())]
    }
    pub fn shuffle<T>(&mut self, xs: &mut [T]) {
        for i in (1..xs.len()).rev() {
            let j = self.below(i + 1);
            xs.swap(i, j);
        }
    }
}

pub fn fnv(bytes: &[u8]) -> u64 {
    let mut h: u64 = 0xcbf29ce484222325;
    for &b in bytes {
        h ^= b as u64;
        h = h.wrapping_mul(0x100000001b3);
    }
    h
}
