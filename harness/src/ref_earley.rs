//! Reference model for context-free grammars: harness Cfg -> plain BNF over byte sets
//! (EBNF lowered with fresh nonterminals, parametric rules expanded over reachable
//! (rule, value) pairs) -> textbook set-based Earley recogniser over bytes.

use crate::gen_cfg::{Cfg, Term, E};
use std::collections::{HashMap, HashSet};

#[derive(Clone, Debug)]
pub enum Sym {
    /// index into byte-set table
    B(usize),
    N(usize),
}

#[derive(Clone, Debug, Default)]
pub struct Bnf {
    pub sets: Vec<[bool; 256]>,
    /// nonterminal -> alternatives
    pub rules: Vec<Vec<Vec<Sym>>>,
    pub start: usize,
    pub nullable: Vec<bool>,
    /// something had to be pruned as unproductive
    pub pruned: bool,
}

#[derive(Debug)]
pub struct TooBig;

struct Lower<'a> {
    cfg: &'a Cfg,
    bnf: Bnf,
    set_ids: HashMap<Vec<u8>, usize>,
    /// (rule idx, param) -> nonterminal
    inst: HashMap<(usize, u64), usize>,
    todo: Vec<(usize, u64)>,
}

impl<'a> Lower<'a> {
    fn byte_set(&mut self, bs: &[u8]) -> usize {
        let mut k = bs.to_vec();
        k.sort();
        k.dedup();
        if let Some(&i) = self.set_ids.get(&k) {
            return i;
        }
        let mut s = [false; 256];
        for &b in &k {
            s[b as usize] = true;
        }
        self.bnf.sets.push(s);
        let i = self.bnf.sets.len() - 1;
        self.set_ids.insert(k, i);
        i
    }
    fn fresh(&mut self) -> usize {
        self.bnf.rules.push(vec![]);
        self.bnf.rules.len() - 1
    }
    fn instance(&mut self, r: usize, p: u64) -> usize {
        let p = if self.cfg.rules[r].parametric { p } else { 0 };
        if let Some(&n) = self.inst.get(&(r, p)) {
            return n;
        }
        let n = self.fresh();
        self.inst.insert((r, p), n);
        self.todo.push((r, p));
        n
    }
    fn term(&mut self, t: usize) -> Vec<Sym> {
        match &self.cfg.terms[t] {
            Term::Lit(b) => b.clone().iter().map(|&x| Sym::B(self.byte_set(&[x]))).collect(),
            Term::Class(bs) => vec![Sym::B(self.byte_set(&bs.clone()))],
        }
    }
    /// lower expression to a symbol sequence (introducing nonterminals as needed)
    fn seq(&mut self, e: &E, p: u64) -> Result<Vec<Sym>, TooBig> {
        if self.bnf.rules.len() > 6000 {
            return Err(TooBig);
        }
        Ok(match e {
            E::Empty => vec![],
            E::T(t) => self.term(*t),
            E::N(r) => vec![Sym::N(self.instance(*r, p))],
            E::NP(r, x) => vec![Sym::N(self.instance(*r, x.eval(p)))],
            E::Seq(v) => {
                let mut out = vec![];
                for x in v {
                    out.extend(self.seq(x, p)?);
                }
                out
            }
            E::Alt(v) => {
                let n = self.fresh();
                for x in v {
                    let s = self.seq(x, p)?;
                    self.bnf.rules[n].push(s);
                }
                vec![Sym::N(n)]
            }
            E::Opt(x) => {
                let n = self.fresh();
                let s = self.seq(x, p)?;
                self.bnf.rules[n].push(vec![]);
                self.bnf.rules[n].push(s);
                vec![Sym::N(n)]
            }
            E::Star(x) => {
                let n = self.fresh();
                let mut s = self.seq(x, p)?;
                self.bnf.rules[n].push(vec![]);
                s.push(Sym::N(n));
                self.bnf.rules[n].push(s);
                vec![Sym::N(n)]
            }
            E::Plus(x) => {
                let mut s = self.seq(x, p)?;
                let star = self.seq(&E::Star(x.clone()), p)?;
                s.extend(star);
                s
            }
            E::Rep(x, m, n) => {
                let mut out = vec![];
                for _ in 0..*m {
                    out.extend(self.seq(x, p)?);
                }
                match n {
                    None => out.extend(self.seq(&E::Star(x.clone()), p)?),
                    Some(n) => {
                        // nested optionals: (x (x (x)?)?)?
                        let k = n.saturating_sub(*m);
                        let mut tail: Vec<Sym> = vec![];
                        for _ in 0..k {
                            let nn = self.fresh();
                            let mut s = self.seq(x, p)?;
                            s.extend(tail);
                            self.bnf.rules[nn].push(vec![]);
                            self.bnf.rules[nn].push(s);
                            tail = vec![Sym::N(nn)];
                        }
                        out.extend(tail);
                    }
                }
                out
            }
        })
    }
}

impl Bnf {
    pub fn from_cfg(cfg: &Cfg) -> Result<Bnf, TooBig> {
        let mut l = Lower { cfg, bnf: Bnf::default(), set_ids: HashMap::new(), inst: HashMap::new(), todo: vec![] };
        let start = l.instance(0, 0);
        while let Some((r, p)) = l.todo.pop() {
            let n = l.inst[&(r, p)];
            for (e, c) in cfg.rules[r].alts.iter() {
                if !c.eval(p) {
                    continue;
                }
                let s = l.seq(e, p)?;
                l.bnf.rules[n].push(s);
            }
            if l.inst.len() > 4000 {
                return Err(TooBig);
            }
        }
        let mut b = l.bnf;
        b.start = start;
        b.reduce();
        Ok(b)
    }

    /// remove unproductive alternatives; compute nullable
    fn reduce(&mut self) {
        let n = self.rules.len();
        let mut prod = vec![false; n];
        loop {
            let mut ch = false;
            for i in 0..n {
                if prod[i] {
                    continue;
                }
                if self.rules[i].iter().any(|alt| alt.iter().all(|s| matches!(s, Sym::B(_)) || matches!(s, Sym::N(j) if prod[*j]))) {
                    prod[i] = true;
                    ch = true;
                }
            }
            if !ch {
                break;
            }
        }
        // reachable-from-start unproductive symbols mean the engine (no pruning) may differ
        let mut reach = vec![false; n];
        let mut st = vec![self.start];
        reach[self.start] = true;
        while let Some(i) = st.pop() {
            for alt in &self.rules[i] {
                for s in alt {
                    if let Sym::N(j) = s {
                        if !reach[*j] {
                            reach[*j] = true;
                            st.push(*j);
                        }
                    }
                }
            }
        }
        for i in 0..n {
            let before = self.rules[i].len();
            self.rules[i].retain(|alt| alt.iter().all(|s| matches!(s, Sym::B(_)) || matches!(s, Sym::N(j) if prod[*j])));
            if reach[i] && self.rules[i].len() != before {
                self.pruned = true;
            }
        }
        let mut nul = vec![false; n];
        loop {
            let mut ch = false;
            for i in 0..n {
                if nul[i] {
                    continue;
                }
                if self.rules[i].iter().any(|alt| alt.iter().all(|s| matches!(s, Sym::N(j) if nul[*j]))) {
                    nul[i] = true;
                    ch = true;
                }
            }
            if !ch {
                break;
            }
        }
        self.nullable = nul;
    }

    pub fn start_productive(&self) -> bool {
        !self.rules[self.start].is_empty()
    }
}

#[derive(Clone, Copy, PartialEq, Eq, Hash, Debug)]
struct Item {
    nt: u32,
    alt: u32,
    dot: u32,
    origin: u32,
}

/// Incremental recogniser: chart of item sets, one per consumed byte.
#[derive(Clone)]
pub struct Earley<'a> {
    g: &'a Bnf,
    chart: Vec<Vec<Item>>,
}

impl<'a> Earley<'a> {
    pub fn new(g: &'a Bnf) -> Self {
        let mut e = Earley { g, chart: vec![] };
        let mut set = vec![];
        let mut seen = HashSet::new();
        for a in 0..g.rules[g.start].len() {
            let it = Item { nt: g.start as u32, alt: a as u32, dot: 0, origin: 0 };
            seen.insert(it);
            set.push(it);
        }
        e.chart.push(vec![]);
        e.close(0, set, seen);
        e
    }

    fn close(&mut self, k: usize, mut set: Vec<Item>, mut seen: HashSet<Item>) {
        let g = self.g;
        let mut i = 0;
        while i < set.len() {
            let it = set[i];
            i += 1;
            let rhs = &g.rules[it.nt as usize][it.alt as usize];
            if (it.dot as usize) < rhs.len() {
                if let Sym::N(n) = rhs[it.dot as usize] {
                    // predict
                    for a in 0..g.rules[n].len() {
                        let ni = Item { nt: n as u32, alt: a as u32, dot: 0, origin: k as u32 };
                        if seen.insert(ni) {
                            set.push(ni);
                        }
                    }
                    if g.nullable[n] {
                        let ni = Item { dot: it.dot + 1, ..it };
                        if seen.insert(ni) {
                            set.push(ni);
                        }
                    }
                }
            } else {
                // complete
                let origin = it.origin as usize;
                let parents: Vec<Item> = if origin == k { set.clone() } else { self.chart[origin].clone() };
                for p in parents {
                    let prhs = &g.rules[p.nt as usize][p.alt as usize];
                    if (p.dot as usize) < prhs.len() {
                        if let Sym::N(n) = prhs[p.dot as usize] {
                            if n == it.nt as usize {
                                let ni = Item { dot: p.dot + 1, ..p };
                                if seen.insert(ni) {
                                    set.push(ni);
                                }
                            }
                        }
                    }
                }
            }
        }
        self.chart[k] = set;
    }

    pub fn len(&self) -> usize {
        self.chart.len() - 1
    }

    /// consume one byte; returns false (and leaves the state unchanged) if no item scans it
    pub fn push(&mut self, b: u8) -> bool {
        let g = self.g;
        let k = self.chart.len() - 1;
        let mut set = vec![];
        let mut seen = HashSet::new();
        for it in &self.chart[k] {
            let rhs = &g.rules[it.nt as usize][it.alt as usize];
            if (it.dot as usize) < rhs.len() {
                if let Sym::B(s) = rhs[it.dot as usize] {
                    if g.sets[s][b as usize] {
                        let ni = Item { dot: it.dot + 1, ..*it };
                        if seen.insert(ni) {
                            set.push(ni);
                        }
                    }
                }
            }
        }
        if set.is_empty() {
            return false;
        }
        self.chart.push(vec![]);
        self.close(k + 1, set, seen);
        true
    }

    pub fn pop(&mut self) {
        self.chart.pop();
    }

    pub fn truncate(&mut self, n_bytes: usize) {
        self.chart.truncate(n_bytes + 1);
    }

    pub fn next_bytes(&self) -> [bool; 256] {
        let g = self.g;
        let mut r = [false; 256];
        for it in self.chart.last().unwrap() {
            let rhs = &g.rules[it.nt as usize][it.alt as usize];
            if (it.dot as usize) < rhs.len() {
                if let Sym::B(s) = rhs[it.dot as usize] {
                    for b in 0..256 {
                        if g.sets[s][b] {
                            r[b] = true;
                        }
                    }
                }
            }
        }
        r
    }

    pub fn accepting(&self) -> bool {
        let g = self.g;
        if self.chart.len() == 1 && g.nullable[g.start] {
            return true;
        }
        self.chart.last().unwrap().iter().any(|it| {
            it.nt as usize == g.start && it.origin == 0 && it.dot as usize == g.rules[it.nt as usize][it.alt as usize].len()
        })
    }

    /// would `bytes` be a viable continuation? (state restored afterwards)
    pub fn viable(&mut self, bytes: &[u8]) -> bool {
        let n = self.len();
        let mut ok = true;
        for &b in bytes {
            if !self.push(b) {
                ok = false;
                break;
            }
        }
        self.truncate(n);
        ok
    }
}
