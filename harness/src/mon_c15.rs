//! C15: grammar optimisation preserves the language and keeps special symbols.
//! Hook H2 hands over (before, after) for every grammar compiled through the real entry point;
//! oracle = bounded terminal-sequence language computed independently by Kleene iteration.

use crate::ctx::Ctx;
use crate::engine::*;
use crate::pool;
use crate::rng::fnv;
use crate::vocab;
use llguidance::earley::ParamValue;
use llguidance::verif_hooks::{self as vh, GrammarDump};
use serde_json::json;
use std::cell::RefCell;
use std::collections::{BTreeSet, HashMap};
use std::rc::Rc;

type Seq = Vec<i32>;

fn special_tag(s: &vh::SymDump) -> Option<String> {
    let mut parts = vec![];
    if let Some(c) = &s.capture_name {
        parts.push(format!("capture={c}"));
    }
    if let Some(c) = &s.stop_capture_name {
        parts.push(format!("stop_capture={c}"));
    }
    if s.max_tokens < usize::MAX {
        parts.push(format!("max_tokens={}", s.max_tokens));
    }
    if let Some(g) = &s.gen_grammar {
        parts.push(format!("gen_grammar={g}"));
    }
    if parts.is_empty() {
        None
    } else {
        Some(parts.join(","))
    }
}

struct Lang<'a> {
    g: &'a GrammarDump,
    max_len: usize,
    cap: usize,
    tags: HashMap<String, i32>,
    memo: HashMap<(usize, u64), BTreeSet<Seq>>,
    overflow: bool,
    /// sequences built so far (work budget: the Kleene iteration re-derives every set in every round)
    work: u64,
}

fn real_len(s: &Seq) -> usize {
    s.iter().filter(|&&x| x >= 0).count()
}

impl<'a> Lang<'a> {
    fn tag_id(&mut self, t: &str) -> i32 {
        let n = self.tags.len() as i32;
        *self.tags.entry(t.to_string()).or_insert(n + 1)
    }

    /// reachable (symbol, param) pairs from the start symbol
    fn reachable(&self) -> Option<Vec<(usize, u64)>> {
        let mut seen: BTreeSet<(usize, u64)> = BTreeSet::new();
        let mut todo = vec![(self.g.start, 0u64)];
        seen.insert((self.g.start, 0));
        while let Some((s, p)) = todo.pop() {
            let sym = &self.g.symbols[s];
            for r in &sym.rules {
                if !r.condition.eval(ParamValue(p)) {
                    continue;
                }
                for (t, e) in &r.rhs {
                    let tp = if self.g.symbols[*t].parametric { e.eval(ParamValue(p)).0 } else { 0 };
                    if seen.insert((*t, tp)) {
                        todo.push((*t, tp));
                        if seen.len() > 4000 {
                            return None;
                        }
                    }
                }
            }
        }
        Some(seen.into_iter().collect())
    }

    fn compute(&mut self) -> Option<BTreeSet<Seq>> {
        let pairs = self.reachable()?;
        for &k in &pairs {
            self.memo.insert(k, BTreeSet::new());
        }
        // tags for special symbols
        let mut tag_of: HashMap<usize, (i32, bool)> = HashMap::new();
        for (i, s) in self.g.symbols.iter().enumerate() {
            if let Some(t) = special_tag(s) {
                let id = self.tag_id(&t);
                tag_of.insert(i, (id, s.gen_grammar.is_some()));
            }
        }
        loop {
            let mut changed = false;
            for &(s, p) in &pairs {
                let sym = &self.g.symbols[s];
                let mut acc: BTreeSet<Seq> = BTreeSet::new();
                if let Some(l) = sym.lexeme {
                    if sym.rules.is_empty() {
                        acc.insert(vec![l as i32]);
                    }
                }
                if let Some((id, true)) = tag_of.get(&s) {
                    // sub-grammar boundary: opaque leaf
                    if sym.rules.is_empty() {
                        acc.insert(vec![-(*id) * 2]);
                    }
                }
                for r in &sym.rules {
                    if !r.condition.eval(ParamValue(p)) {
                        continue;
                    }
                    let mut cur: BTreeSet<Seq> = BTreeSet::new();
                    cur.insert(vec![]);
                    for (t, e) in &r.rhs {
                        let tp = if self.g.symbols[*t].parametric { e.eval(ParamValue(p)).0 } else { 0 };
                        let sub = &self.memo[&(*t, tp)];
                        let mut next: BTreeSet<Seq> = BTreeSet::new();
                        for a in &cur {
                            for b in sub {
                                self.work += 1;
                                if real_len(a) + real_len(b) <= self.max_len && a.len() + b.len() <= 4 * self.max_len + 8 {
                                    let mut c = a.clone();
                                    c.extend_from_slice(b);
                                    next.insert(c);
                                    self.work += 4;
                                }
                            }
                            if next.len() > self.cap || self.work > 30_000_000 {
                                self.overflow = true;
                                return None;
                            }
                        }
                        cur = next;
                        if cur.is_empty() {
                            break;
                        }
                    }
                    acc.extend(cur);
                }
                // wrap in bracket pseudo-terminals for capture / stop-capture / token-limit symbols
                if let Some((id, false)) = tag_of.get(&s) {
                    acc = acc
                        .into_iter()
                        .map(|x| {
                            let mut w = vec![-(*id) * 2];
                            w.extend(x);
                            w.push(-(*id) * 2 - 1);
                            w
                        })
                        .filter(|x| x.len() <= 4 * self.max_len + 8)
                        .collect();
                }
                if acc.len() > self.cap {
                    self.overflow = true;
                    return None;
                }
                let old = self.memo.get_mut(&(s, p)).unwrap();
                if acc.len() != old.len() {
                    // monotone: acc is a superset of old by construction of the iteration
                    *old = acc;
                    changed = true;
                }
            }
            if !changed {
                break;
            }
        }
        Some(self.memo[&(self.g.start, 0)].clone())
    }
}

fn language(g: &GrammarDump, tags: &HashMap<String, i32>, max_len: usize, cap: usize) -> (Option<BTreeSet<Seq>>, HashMap<String, i32>) {
    let mut l = Lang { g, max_len, cap, tags: tags.clone(), memo: HashMap::new(), overflow: false, work: 0 };
    let r = l.compute();
    (r, l.tags)
}

fn reachable_specials(g: &GrammarDump) -> Vec<String> {
    let mut seen = vec![false; g.symbols.len()];
    let mut todo = vec![g.start];
    seen[g.start] = true;
    while let Some(s) = todo.pop() {
        for r in &g.symbols[s].rules {
            for (t, _) in &r.rhs {
                if !seen[*t] {
                    seen[*t] = true;
                    todo.push(*t);
                }
            }
        }
    }
    let mut v: Vec<String> = g.symbols.iter().enumerate().filter(|(i, _)| seen[*i]).filter_map(|(_, s)| special_tag(s)).collect();
    v.sort();
    v
}

fn show(g: &GrammarDump) -> Vec<String> {
    let mut out = vec![];
    for s in &g.symbols {
        for r in &s.rules {
            out.push(format!(
                "{}{} -> {}{}",
                s.name,
                special_tag(s).map(|t| format!("[{t}]")).unwrap_or_default(),
                r.rhs.iter().map(|(t, e)| format!("{}{}", g.symbols[*t].lexeme.map(|l| format!("<{l}>")).unwrap_or_else(|| g.symbols[*t].name.clone()), if g.symbols[*t].parametric { format!("::{e}") } else { String::new() })).collect::<Vec<_>>().join(" "),
                if r.condition.is_true() { String::new() } else { format!(" %if {}", r.condition) }
            ));
        }
    }
    out.truncate(60);
    out
}

fn extra_grammars(idx: u64) -> Option<GCase> {
    // shapes the optimiser cares about: chains of single-rule symbols, captures, token limits, nested grammars
    let v = [
        "start: a\na: b\nb: c\nc: \"x\" d\nd: \"y\" | \"z\" a\n",
        "start: wrap \"!\"\nwrap[capture]: inner\ninner: mid\nmid: /[a-z]+/ | \"(\" wrap \")\"\n",
        "start: a b\na[capture=\"first\"]: x\nb[capture=\"second\"]: x\nx: y\ny: \"k\" | \"kk\"\n",
        "start: lim \";\" lim2\nlim[max_tokens=5]: /[a-z ]*/\nlim2[max_tokens=3]: t\nt: /[0-9]+/\n",
        "start: j \",\" j2\nj: %json {\"type\":\"integer\"}\nj2: k\nk: %json {\"enum\":[\"a\",\"b\"]}\n",
        "start: s\ns: t \"+\" s | t\nt: u\nu: v\nv: \"1\" | \"(\" s \")\"\n",
        "start: opt* sep\nopt: one | two\none: \"a\"\ntwo: one one\nsep: \"\" | \";\" \n",
        "start: body\nbody[stop=\"END\", capture]: /.*/\n",
        "start: p::0\np::_: \"a\" q::set_bit(0) %if bit_clear(0) | \"\" %if bit_set(0)\nq::_: p::_\n",
        "start: x::0x0\nx::_: y::_ \"!\"\ny::_: z::incr(_) %if lt(_, 2) | \"\"\nz::_: \"a\" y::_\n",
        "start  : cnt::0\ncnt::_ : \"a\" cnt::incr(_)   %if lt(_, 4)\n       | fin::_\nfin::_ : \"!\" \"?\"            %if ge(_, 2)\n",
        "start: a::0\na::_: \"x\" a::set_bit(0) %if bit_clear(0) | b::_\nb::_: c::_ \"y\" %if bit_set(0)\nc::_: \"z\" %if is_ones([0:1])\n",
    ];
    v.get(idx as usize).map(|t| GCase::lark(&format!("c15_extra{idx}"), t).tag("c15_extra"))
}

fn run_case(ctx: &mut Ctx, idx: u64, f: &llguidance::ParserFactory, seen: &Rc<RefCell<Vec<(GrammarDump, GrammarDump)>>>) {
    let mut rng = ctx.case_rng(idx);
    let g = match extra_grammars(idx) {
        Some(g) => g,
        None => {
            if rng.chance(1, 3) {
                let i = rng.below(pool::n_corpus() as usize) as u64;
                pool::grammar(&mut rng, i)
            } else {
                pool::grammar(&mut rng, 1_000_000 + idx)
            }
        }
    };
    seen.borrow_mut().clear();
    let r = parser(f, &g);
    let pairs: Vec<(GrammarDump, GrammarDump)> = seen.borrow_mut().drain(..).collect();
    if r.is_err() && pairs.is_empty() {
        ctx.rep.inc("compile_errors_before_optimisation");
        return;
    }
    if pairs.is_empty() {
        ctx.rep.inc("compiled_without_optimiser_event");
        let rp = ctx.replay(idx);
        ctx.rep.violation("grammar_compiled_without_passing_the_optimiser_hook", &g.tags, json!({"grammar": g.text}), rp);
        return;
    }
    for (before, after) in pairs {
        ctx.rep.inc("optimisations_observed");
        let nb = before.symbols.iter().filter(|s| !s.rules.is_empty()).count();
        let na = after.symbols.iter().filter(|s| !s.rules.is_empty()).count();
        // special symbols survive
        let (sb, sa) = (reachable_specials(&before), reachable_specials(&after));
        if sb != sa {
            let d = json!({"grammar": g.text, "specials_before": sb, "specials_after": sa, "before": show(&before), "after": show(&after)});
            let rp = ctx.replay(idx);
            ctx.rep.violation("special_symbols_not_preserved", &g.tags, d, rp);
            return;
        }
        // bounded languages
        let mut decided = false;
        for max_len in [6usize, 5, 4, 3] {
            let (lb, tags) = language(&before, &HashMap::new(), max_len, 20000);
            let Some(lb) = lb else { continue };
            let (la, _) = language(&after, &tags, max_len, 20000);
            let Some(la) = la else { continue };
            decided = true;
            ctx.rep.add("sequences_compared", lb.len() as u64);
            ctx.rep.max("max.bound_used", max_len as u64);
            if lb != la {
                let only_b: Vec<&Seq> = lb.difference(&la).take(5).collect();
                let only_a: Vec<&Seq> = la.difference(&lb).take(5).collect();
                let d = json!({"grammar": g.text, "bound": max_len, "only_before": only_b, "only_after": only_a, "before": show(&before), "after": show(&after)});
                let rp = ctx.replay(idx);
                ctx.rep.violation("language_changed_by_optimisation", &g.tags, d, rp);
                return;
            }
            if na < nb && lb.len() >= 2 {
                ctx.rep.nontrivial(g.hash() ^ fnv(format!("{nb}->{na}").as_bytes()));
            }
            break;
        }
        if !decided {
            ctx.rep.inconclusive("language_bound_exhausted");
        }
        if na < nb {
            ctx.rep.inc("optimisations_that_removed_symbols");
        }
        if idx % 60 == 0 {
            ctx.rep.sample(json!({"grammar": g.text.chars().take(200).collect::<String>(), "rules_before": nb, "rules_after": na, "before_head": show(&before).into_iter().take(8).collect::<Vec<_>>(), "after_head": show(&after).into_iter().take(8).collect::<Vec<_>>()}));
        }
    }
}

pub fn run(ctx: &mut Ctx) {
    let v = vocab::v1(false);
    let f = factory(&v, &FactoryOpts::default()).unwrap();
    let seen: Rc<RefCell<Vec<(GrammarDump, GrammarDump)>>> = Rc::new(RefCell::new(vec![]));
    let s2 = seen.clone();
    vh::set_optimize_observer(Some(Box::new(move |b, a| s2.borrow_mut().push((b, a)))));
    let n_cases = ctx.pick(12000, 200000);
    for idx in 0..n_cases {
        if !ctx.mine(idx) {
            continue;
        }
        if ctx.out_of_time() {
            break;
        }
        run_case(ctx, idx, &f, &seen);
    }
    vh::set_optimize_observer(None);
}
