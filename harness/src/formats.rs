//! Format checkers re-implemented from the RFC grammars (independent of the engine's regexes).
//! `None` = this checker does not decide that format.

fn digits(s: &[u8]) -> Option<u32> {
    if s.is_empty() || !s.iter().all(|c| c.is_ascii_digit()) {
        return None;
    }
    let mut v = 0u32;
    for &c in s {
        v = v.checked_mul(10)?.checked_add((c - b'0') as u32)?;
    }
    Some(v)
}

pub fn is_leap(y: u32) -> bool {
    (y % 4 == 0 && y % 100 != 0) || y % 400 == 0
}

pub fn check_date(s: &str) -> bool {
    let b = s.as_bytes();
    if b.len() != 10 || b[4] != b'-' || b[7] != b'-' {
        return false;
    }
    let (Some(y), Some(m), Some(d)) = (digits(&b[0..4]), digits(&b[5..7]), digits(&b[8..10])) else { return false };
    let dim = match m {
        1 | 3 | 5 | 7 | 8 | 10 | 12 => 31,
        4 | 6 | 9 | 11 => 30,
        2 => {
            if is_leap(y) {
                29
            } else {
                28
            }
        }
        _ => return false,
    };
    d >= 1 && d <= dim
}

/// RFC 3339 full-time; leap second only when the UTC time is 23:59:60
pub fn check_time(s: &str) -> bool {
    let b = s.as_bytes();
    if b.len() < 9 || b[2] != b':' || b[5] != b':' {
        return false;
    }
    let (Some(h), Some(mi), Some(se)) = (digits(&b[0..2]), digits(&b[3..5]), digits(&b[6..8])) else { return false };
    if h > 23 || mi > 59 || se > 60 {
        return false;
    }
    let mut i = 8;
    if b[i] == b'.' {
        i += 1;
        let st = i;
        while i < b.len() && b[i].is_ascii_digit() {
            i += 1;
        }
        if i == st {
            return false;
        }
    }
    if i >= b.len() {
        return false;
    }
    let mut off_min: i32 = 0;
    match b[i] {
        b'Z' | b'z' => {
            if i + 1 != b.len() {
                return false;
            }
        }
        b'+' | b'-' => {
            if b.len() != i + 6 || b[i + 3] != b':' {
                return false;
            }
            let (Some(oh), Some(om)) = (digits(&b[i + 1..i + 3]), digits(&b[i + 4..i + 6])) else { return false };
            if oh > 23 || om > 59 {
                return false;
            }
            off_min = (oh * 60 + om) as i32;
            if b[i] == b'-' {
                off_min = -off_min;
            }
        }
        _ => return false,
    }
    if se == 60 {
        let utc = ((h * 60 + mi) as i32 - off_min).rem_euclid(24 * 60);
        if utc != 23 * 60 + 59 {
            return false;
        }
    }
    true
}

pub fn check_date_time(s: &str) -> bool {
    if s.len() < 11 || !s.is_char_boundary(10) {
        return false;
    }
    let sep = s.as_bytes()[10];
    if !(sep == b'T' || sep == b't' || sep == b' ') {
        return false;
    }
    check_date(&s[..10]) && check_time(&s[11..])
}

pub fn check_duration(s: &str) -> bool {
    // dur-week / dur-date [dur-time] / dur-time   (RFC 3339 appendix A)
    let Some(r) = s.strip_prefix('P') else { return false };
    if r.is_empty() {
        return false;
    }
    fn units(mut r: &str, order: &[u8]) -> Option<usize> {
        // sequence of <digits><unit> with units strictly following `order`, contiguous per RFC
        let mut idx = 0;
        let mut n = 0;
        let mut last: Option<usize> = None;
        while !r.is_empty() {
            let dl = r.bytes().take_while(|c| c.is_ascii_digit()).count();
            if dl == 0 || dl == r.len() {
                return None;
            }
            let u = r.as_bytes()[dl];
            let pos = order[idx..].iter().position(|&x| x == u)? + idx;
            if let Some(l) = last {
                if pos != l + 1 {
                    return None; // RFC grammar nests units contiguously (Y then M then D)
                }
            }
            last = Some(pos);
            idx = pos + 1;
            n += 1;
            r = &r[dl + 1..];
        }
        Some(n)
    }
    if let Some(w) = r.strip_suffix('W') {
        return !w.is_empty() && w.bytes().all(|c| c.is_ascii_digit());
    }
    let (d, t) = match r.find('T') {
        Some(i) => (&r[..i], Some(&r[i + 1..])),
        None => (r, None),
    };
    let dn = if d.is_empty() { Some(0) } else { units(d, b"YMD") };
    let tn = match t {
        None => Some(0),
        Some(t) => match units(t, b"HMS") {
            Some(0) | None => None,
            x => x,
        },
    };
    match (dn, tn) {
        (Some(a), Some(b)) => a + b > 0 && (t.is_none() || b > 0),
        _ => false,
    }
}

pub fn check_ipv4(s: &str) -> bool {
    let parts: Vec<&str> = s.split('.').collect();
    parts.len() == 4
        && parts.iter().all(|p| {
            !p.is_empty() && p.len() <= 3 && p.bytes().all(|c| c.is_ascii_digit()) && (p.len() == 1 || !p.starts_with('0')) && p.parse::<u32>().is_ok_and(|v| v <= 255)
        })
}

pub fn check_ipv6(s: &str) -> bool {
    if s.is_empty() || s.contains(":::") {
        return false;
    }
    let dbl = s.matches("::").count();
    if dbl > 1 {
        return false;
    }
    let (head, tail) = match s.find("::") {
        Some(i) => (&s[..i], &s[i + 2..]),
        None => (s, ""),
    };
    let mut groups = 0;
    let mut count = |part: &str, last_part: bool| -> bool {
        if part.is_empty() {
            return true;
        }
        let gs: Vec<&str> = part.split(':').collect();
        for (i, g) in gs.iter().enumerate() {
            if last_part && i + 1 == gs.len() && g.contains('.') {
                if !check_ipv4(g) {
                    return false;
                }
                groups += 2;
            } else {
                if g.is_empty() || g.len() > 4 || !g.bytes().all(|c| c.is_ascii_hexdigit()) {
                    return false;
                }
                groups += 1;
            }
        }
        true
    };
    if dbl == 1 {
        if !count(head, false) || !count(tail, true) {
            return false;
        }
        groups <= 7
    } else {
        if !count(head, true) {
            return false;
        }
        groups == 8
    }
}

pub fn check_uuid(s: &str) -> bool {
    let b = s.as_bytes();
    if b.len() != 36 {
        return false;
    }
    for (i, &c) in b.iter().enumerate() {
        if matches!(i, 8 | 13 | 18 | 23) {
            if c != b'-' {
                return false;
            }
        } else if !c.is_ascii_hexdigit() {
            return false;
        }
    }
    true
}

pub fn check_hostname(s: &str) -> bool {
    // label rules only (total-length limit deliberately not enforced: see DESIGN.md)
    !s.is_empty()
        && s.split('.').all(|l| {
            !l.is_empty()
                && l.len() <= 63
                && l.bytes().all(|c| c.is_ascii_alphanumeric() || c == b'-')
                && !l.starts_with('-')
                && !l.ends_with('-')
        })
}

pub fn check_email(s: &str) -> bool {
    let Some(at) = s.rfind('@') else { return false };
    let (local, domain) = (&s[..at], &s[at + 1..]);
    if local.is_empty() || domain.is_empty() {
        return false;
    }
    let atext = |c: u8| c.is_ascii_alphanumeric() || b"!#$%&'*+-/=?^_`{|}~".contains(&c);
    let local_ok = if local.starts_with('"') {
        local.len() >= 2 && local.ends_with('"')
    } else {
        local.split('.').all(|p| !p.is_empty() && p.bytes().all(atext))
    };
    let domain_ok = if domain.starts_with('[') && domain.ends_with(']') {
        let inner = &domain[1..domain.len() - 1];
        check_ipv4(inner) || inner.strip_prefix("IPv6:").is_some_and(check_ipv6)
    } else {
        // RFC 5321 sub-domain grammar (label length limits deliberately not asserted)
        !domain.is_empty()
            && domain.split('.').all(|l| !l.is_empty() && l.bytes().all(|c| c.is_ascii_alphanumeric() || c == b'-') && !l.starts_with('-') && !l.ends_with('-'))
    };
    local_ok && domain_ok
}

pub fn check_uri(s: &str) -> bool {
    // necessary conditions from RFC 3986 only: scheme, character set, percent-encoding
    let Some(colon) = s.find(':') else { return false };
    let scheme = &s[..colon];
    if scheme.is_empty() || !scheme.as_bytes()[0].is_ascii_alphabetic() || !scheme.bytes().all(|c| c.is_ascii_alphanumeric() || b"+-.".contains(&c)) {
        return false;
    }
    let b = s.as_bytes();
    let mut i = colon + 1;
    while i < b.len() {
        let c = b[i];
        if c == b'%' {
            if i + 2 >= b.len() || !b[i + 1].is_ascii_hexdigit() || !b[i + 2].is_ascii_hexdigit() {
                return false;
            }
            i += 3;
            continue;
        }
        let ok = c.is_ascii_alphanumeric() || b"-._~:/?#[]@!$&'()*+,;=".contains(&c);
        if !ok {
            return false;
        }
        i += 1;
    }
    s[colon + 1..].matches('#').count() <= 1
}

pub fn check(format: &str, s: &str) -> Option<bool> {
    Some(match format {
        "date" => check_date(s),
        "time" => check_time(s),
        "date-time" => check_date_time(s),
        "duration" => check_duration(s),
        "ipv4" => check_ipv4(s),
        "ipv6" => check_ipv6(s),
        "uuid" => check_uuid(s),
        "hostname" => check_hostname(s),
        "email" => check_email(s),
        "uri" => check_uri(s),
        _ => return None,
    })
}
