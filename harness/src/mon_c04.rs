//! C04: a regular-expression constraint admits exactly the regex's language.
//! Oracle: reference DFA (ref_dfa) built from the harness's own AST.

use crate::ctx::Ctx;
use crate::engine::*;
use crate::gen_regex::{Rx, RxGen};
use crate::pool;
use crate::ref_dfa::Dfa;
use crate::report::bytes_dbg;
use crate::rng::{fnv, Rng};
use crate::vocab::{self, Vocab};
use llguidance::Matcher;
use serde_json::json;

pub struct RxCase {
    pub rx: Rx,
    pub g: GCase,
    pub entry: &'static str,
}

fn substring_rx(chunks: &[String]) -> Rx {
    let mut alts = vec![Rx::Empty];
    for i in 0..chunks.len() {
        for j in i + 1..=chunks.len() {
            alts.push(Rx::Lit(chunks[i..j].concat()));
        }
    }
    Rx::Alt(alts)
}

pub fn gen_case(rng: &mut Rng, idx: u64, allow_raw: bool) -> RxCase {
    match rng.below(12) {
        0..=2 => {
            let gen = RxGen { allow_algebra: false, allow_raw_not: false, max_depth: 3 };
            let rx = pool::gen_nonempty(rng, &gen);
            // `\/` is a legal spelling of `/` (patterns ported from JavaScript): half of the cases use it
            let mut text = rx.to_regex();
            if text.contains('/') && rng.chance(1, 2) {
                text = text.replace('/', "\\/");
            }
            let g = GCase::regex(&format!("c04rx{idx}"), &text).tag("entry_from_regex");
            RxCase { rx, g, entry: "from_regex" }
        }
        3..=4 => {
            let gen = RxGen { allow_algebra: false, allow_raw_not: false, max_depth: 3 };
            let rx = pool::gen_nonempty(rng, &gen);
            let g = GCase::lark(&format!("c04lk{idx}"), &format!("start: /{}/\n", rx.to_regex().replace('/', "\\/"))).tag("entry_lark_regex");
            RxCase { rx, g, entry: "lark_inline_regex" }
        }
        5..=8 => {
            let raw = allow_raw && rng.chance(1, 6);
            let gen = RxGen { allow_algebra: true, allow_raw_not: raw, max_depth: 3 };
            let rx = pool::gen_nonempty(rng, &gen);
            let t = rx.to_lark_term(rng);
            let mut g = GCase::lark(&format!("c04term{idx}"), &format!("start: T\nT: {t}\n")).tag("entry_lark_terminal");
            if rx.has_raw_not() {
                g = g.tag("raw_complement");
            }
            RxCase { rx, g, entry: "lark_terminal_algebra" }
        }
        9 => {
            // multi-terminal composition: T: A B | C ; named sub-terminals
            let gen = RxGen { allow_algebra: false, allow_raw_not: false, max_depth: 2 };
            let (a, b, c) = (pool::gen_nonempty(rng, &gen), pool::gen_nonempty(rng, &gen), pool::gen_nonempty(rng, &gen));
            let rx = Rx::Alt(vec![Rx::Cat(vec![a.clone(), Rx::Rep(Box::new(b.clone()), 0, Some(2))]), c.clone()]);
            let text = format!("start: T\nT: A B{{0,2}} | C\nA: {}\nB: {}\nC: {}\n", a.to_lark_term(rng), b.to_lark_term(rng), c.to_lark_term(rng));
            RxCase { rx, g: GCase::lark(&format!("c04named{idx}"), &text).tag("entry_lark_named_terminals"), entry: "lark_named_terminals" }
        }
        _ => {
            let words = ["ab", "c", "abc", "\u{e9}", "x y", "de", "a", "\u{65e5}\u{672c}", "b"];
            // half of the sources are long repetitive strings over 2-3 symbols: those exercise the
            // clone / suffix-link paths of the suffix automaton
            let chunks: Vec<String> = if rng.chance(1, 2) {
                let syms: &[&str] = if rng.chance(1, 2) { &["a", "b"] } else { &["a", "b", "c"] };
                let n = 4 + rng.below(10);
                (0..n).map(|_| rng.pick(syms).to_string()).collect()
            } else {
                let n = 2 + rng.below(4);
                (0..n).map(|_| rng.pick(&words).to_string()).collect()
            };
            let rx = substring_rx(&chunks);
            let (text, entry) = match rng.below(3) {
                0 => (format!("start: T\nT: %regex {}\n", json!({"substring_chunks": chunks})), "substring_chunks"),
                1 => {
                    let cs: Vec<String> = chunks.concat().chars().map(|c| c.to_string()).collect();
                    let rx2 = substring_rx(&cs);
                    return RxCase { rx: rx2, g: GCase::lark(&format!("c04subc{idx}"), &format!("start: T\nT: %regex {}\n", json!({"substring_chars": chunks.concat()}))).tag("entry_substring"), entry: "substring_chars" };
                }
                _ => (format!("start: \"<\" T \">\"\nT: %regex {}\n", json!({"substring_chunks": chunks})), "substring_chunks_embedded"),
            };
            let rx = if entry == "substring_chunks_embedded" { Rx::Cat(vec![Rx::lit("<"), rx, Rx::lit(">")]) } else { rx };
            RxCase { rx, g: GCase::lark(&format!("c04sub{idx}"), &text).tag("entry_substring"), entry }
        }
    }
}

fn alphabet(rng: &mut Rng, rx: &Rx, max: usize) -> Vec<u8> {
    let mut cs = vec![];
    rx.chars(&mut cs);
    cs.sort();
    cs.dedup();
    rng.shuffle(&mut cs);
    let mut bytes: Vec<u8> = vec![];
    for c in cs {
        let mut b = [0u8; 4];
        for &x in c.encode_utf8(&mut b).as_bytes() {
            if !bytes.contains(&x) && bytes.len() < max - 1 {
                bytes.push(x);
            }
        }
    }
    for f in [b'z', 0x80u8, b'A', 0xE6] {
        if bytes.len() < max && !bytes.contains(&f) {
            bytes.push(f);
            if rng.chance(1, 2) {
                break;
            }
        }
    }
    bytes.sort();
    bytes
}

struct Dfs<'a> {
    d: &'a Dfa,
    sigma: &'a [u8],
    max_len: usize,
    nodes: usize,
    budget: usize,
    truncated: bool,
    prefix: Vec<u8>,
    skip_ff: bool,
}

/// compare engine state with DFA state q; Err = (kind, detail)
fn compare_node(m: &mut Matcher, d: &Dfa, q: u32, prefix: &[u8]) -> Result<(), (String, serde_json::Value)> {
    if m.is_stopped() {
        let ok = m.stop_reason() == llguidance::api::StopReason::NoExtension && d.is_accept(q) && !d.can_extend(q);
        if !ok {
            return Err(("stopped_but_language_continues".into(), json!({"prefix": bytes_dbg(prefix), "stop": format!("{:?}", m.stop_reason()), "ref_accept": d.is_accept(q), "ref_can_extend": d.can_extend(q)})));
        }
        return Ok(());
    }
    let acc = m.is_accepting().map_err(|_| ("is_accepting_error".to_string(), json!({"prefix": bytes_dbg(prefix)})))?;
    if acc != d.is_accept(q) {
        return Err(("accepting_differs".into(), json!({"prefix": bytes_dbg(prefix), "engine": acc, "reference": d.is_accept(q)})));
    }
    let mask = match m.compute_mask() {
        Ok(x) => x,
        Err(_) => {
            note_failed_hist(&prefix.iter().map(|&b| b as u32).collect::<Vec<_>>());
            return Err(("mask_error_on_live_prefix".into(), json!({"prefix": bytes_dbg(prefix), "stop": format!("{:?}", m.stop_reason())})));
        }
    };
    for b in 0..=254u8 {
        let e = mask.is_allowed(b as u32);
        let r = d.is_live(d.step(q, b));
        if e != r {
            return Err(("next_byte_differs".into(), json!({"prefix": bytes_dbg(prefix), "byte": b, "engine_allows": e, "reference_live": r})));
        }
    }
    Ok(())
}

impl<'a> Dfs<'a> {
    fn go(&mut self, m: &Matcher, q: u32) -> Result<(), (String, serde_json::Value)> {
        self.nodes += 1;
        let mut me = m.clone();
        compare_node(&mut me, self.d, q, &self.prefix)?;
        if self.prefix.len() >= self.max_len || me.is_stopped() {
            return Ok(());
        }
        for &b in self.sigma {
            if b == 0xFF && self.skip_ff {
                continue;
            }
            let q2 = self.d.step(q, b);
            if !self.d.is_live(q2) {
                continue;
            }
            if self.nodes >= self.budget {
                self.truncated = true;
                return Ok(());
            }
            let mut c = me.clone();
            if c.consume_token(b as u32).is_err() {
                self.prefix.push(b);
                let r = Err(("live_byte_rejected_on_commit".into(), json!({"prefix": bytes_dbg(&self.prefix)})));
                self.prefix.pop();
                return r;
            }
            self.prefix.push(b);
            let r = self.go(&c, q2);
            self.prefix.pop();
            r?;
        }
        Ok(())
    }
}

/// random accepted string (walk through live states)
fn sample_positive(rng: &mut Rng, d: &Dfa, max: usize) -> Option<Vec<u8>> {
    let mut q = d.start;
    let mut out = vec![];
    for _ in 0..max {
        if d.is_accept(q) && (rng.chance(1, 6) || !d.can_extend(q)) {
            return Some(out);
        }
        let lb = d.live_bytes(q);
        if lb.is_empty() {
            break;
        }
        let b = *rng.pick(&lb);
        out.push(b);
        q = d.step(q, b);
    }
    if d.is_accept(q) {
        Some(out)
    } else {
        None
    }
}

fn run_case(ctx: &mut Ctx, idx: u64, v1: &Vocab, multi: &[Vocab]) {
    let mut rng = ctx.case_rng(idx);
    let case = gen_case(&mut rng, idx, true);
    let Ok(d) = Dfa::from_rx(&case.rx) else {
        ctx.rep.inconclusive("reference_dfa_too_big");
        return;
    };
    if !d.is_live(d.start) {
        ctx.rep.inc("empty_language_skipped");
        return;
    }
    let Ok(f1) = factory_noslice(v1) else { return };
    let m = match matcher(&f1, &case.g) {
        Ok(m) if !m.is_error() => m,
        _ => {
            // the engine may refuse a regex (e.g. fuel limits); that is not a language disagreement
            ctx.rep.inc("compile_errors");
            ctx.rep.inc(&format!("compile_errors.{}", case.entry));
            return;
        }
    };
    ctx.rep.inc("cases");
    ctx.rep.inc(&format!("entry.{}", case.entry));
    let tags = case.g.tags.clone();
    macro_rules! viol {
        ($kind:expr, $detail:expr) => {{
            if $kind.starts_with("mask_error") && LAST_FAILED_HIST.with(|h| resource_stop_on_replay(&f1, &case.g, &h.borrow())) {
                ctx.rep.inconclusive("resource_stop");
                return;
            }
            let d = json!({"grammar": case.g.text, "entry": case.entry, "rx_ast": format!("{:?}", case.rx).chars().take(600).collect::<String>(), "oracle": $detail});
            let rp = ctx.replay(idx);
            ctx.rep.violation($kind, &tags, d, rp);
            return;
        }};
    }
    // 1. exhaustive DFS over a small alphabet
    let sigma = alphabet(&mut rng, &case.rx, ctx.pick(5, 6));
    let max_len = ctx.pick(5, 7);
    let mut dfs = Dfs { d: &d, sigma: &sigma, max_len, nodes: 0, budget: ctx.pick(1500, 20000), truncated: false, prefix: vec![], skip_ff: true };
    if let Err((k, det)) = dfs.go(&m, d.start) {
        viol!(&k, json!({"phase": "dfs", "sigma": bytes_dbg(&sigma), "detail": det}));
    }
    ctx.rep.add("dfs_nodes", dfs.nodes as u64);
    ctx.rep.add("mask_bytes_compared", dfs.nodes as u64 * 255);
    if dfs.truncated {
        ctx.rep.inc("dfs_truncated");
    } else {
        ctx.rep.inc("dfs_exhaustive");
    }
    let nontrivial = case.rx.n_ops() >= 3 && d.n_live() >= 4;
    if nontrivial {
        ctx.rep.nontrivial(case.g.hash());
    }
    // 2. long positive samples and single-edit negatives, byte by byte on V1
    for _ in 0..ctx.pick(4, 12) {
        let Some(mut s) = sample_positive(&mut rng, &d, 40) else { continue };
        if s.contains(&0xFF) {
            continue;
        }
        let edit = rng.chance(1, 2) && !s.is_empty();
        if edit {
            let i = rng.below(s.len());
            match rng.below(3) {
                0 => s[i] = *rng.pick(&sigma),
                1 => {
                    s.remove(i);
                }
                _ => s.insert(i, *rng.pick(&sigma)),
            }
            if s.contains(&0xFF) {
                continue;
            }
        }
        ctx.rep.inc("sample_strings");
        let mut me = m.clone();
        let mut q = d.start;
        for (i, &b) in s.iter().enumerate() {
            let q2 = d.step(q, b);
            let live = d.is_live(q2);
            if me.is_stopped() {
                if live {
                    viol!("stopped_before_end_of_matching_string", json!({"string": bytes_dbg(&s), "pos": i}));
                }
                break;
            }
            let ok = me.consume_token(b as u32).is_ok();
            if ok != live {
                viol!("sample_byte_differs", json!({"string": bytes_dbg(&s), "pos": i, "engine_accepts": ok, "reference_live": live, "edited": edit}));
            }
            if !ok {
                break;
            }
            q = q2;
            if i + 1 == s.len() {
                if let Err((k, det)) = compare_node(&mut me, &d, q, &s) {
                    viol!(&k, json!({"phase": "sample_end", "detail": det}));
                }
            }
        }
    }
    // 3. V-loop on a multi-byte vocabulary at sampled prefixes: M[t] == live(delta*(q, bytes t))
    if !multi.is_empty() {
        let v = rng.pick(multi);
        let Ok(fv) = factory(v, &FactoryOpts::default()) else { return };
        let Ok(mv0) = matcher(&fv, &case.g) else { return };
        if mv0.is_error() {
            return;
        }
        for _ in 0..ctx.pick(3, 8) {
            let Some(s) = sample_positive(&mut rng, &d, 24) else { continue };
            if s.contains(&0xFF) {
                continue;
            }
            let cut = rng.below(s.len() + 1);
            let pre = &s[..cut];
            // tokenise the prefix greedily over v and feed it
            let toks = v.trie().greedy_tokenize(pre);
            let mut me = mv0.clone();
            let mut fed = true;
            for &t in &toks {
                if me.is_stopped() || me.consume_token(t).is_err() {
                    fed = false;
                    break;
                }
            }
            if !fed {
                viol!("prefix_of_matching_string_rejected_as_tokens", json!({"prefix": bytes_dbg(pre), "tokens": toks, "vocab": v.name}));
            }
            if me.is_stopped() {
                continue;
            }
            let q = d.run(pre);
            let Ok(mask) = me.compute_mask() else {
                if resource_stop_on_replay(&fv, &case.g, &toks) {
                    ctx.rep.inconclusive("resource_stop");
                    continue;
                }
                viol!("vocab_mask_error_on_live_prefix", json!({"prefix": bytes_dbg(pre), "vocab": v.name}));
            };
            ctx.rep.inc("vloop_states");
            for t in 0..v.n() as u32 {
                let w = &v.words[t as usize];
                if w.is_empty() || w.contains(&0xFF) {
                    continue;
                }
                let r = d.is_live(d.run_from(q, w));
                ctx.rep.inc("vloop_token_checks");
                if mask.is_allowed(t) != r {
                    viol!("token_mask_differs_from_reference", json!({"prefix": bytes_dbg(pre), "token": t, "token_bytes": bytes_dbg(w), "engine_allows": mask.is_allowed(t), "reference_live": r, "vocab": v.name}));
                }
            }
            if me.is_accepting().ok() != Some(d.is_accept(q)) {
                viol!("accepting_differs", json!({"prefix": bytes_dbg(pre), "vocab": v.name}));
            }
        }
    }
    if rng.chance(1, 40) {
        ctx.rep.sample(json!({"grammar": case.g.text, "entry": case.entry, "sigma": bytes_dbg(&sigma), "max_len": max_len, "dfs_nodes": dfs.nodes, "exhaustive_for_this_regex": !dfs.truncated, "ref_live_states": d.n_live()}));
    }
    let _ = fnv;
}

pub fn run(ctx: &mut Ctx) {
    let v1 = vocab::v1(false);
    // multi-byte vocabularies (non-canonical so that masks are never narrowed)
    let mut grng = ctx.global_rng(4);
    let mut multi = vec![vocab::vsyn(&mut grng, &vocab::generic_samples(), 300, false, "Vsyn300")];
    let abc: Vec<Vec<u8>> = ["abcabcaabbccxkskxs", "a-b.c 0 1 9 aa bb cc ab ba", "\u{e9}\u{e9}a\u{65e5}b\u{1f422}c\u{e9}\u{65e5}\u{1f422}", "AZaZkK/\"\n\"//"].iter().map(|s| s.as_bytes().to_vec()).collect();
    multi.push(vocab::vsyn(&mut grng, &abc, 250, false, "VsynAlpha"));
    if let Ok(b) = vocab::vbpe_noncanon(1024) {
        multi.push(b);
    }
    let n_cases = ctx.pick(12000, 700000);
    for idx in 0..n_cases {
        if !ctx.mine(idx) {
            continue;
        }
        if ctx.out_of_time() {
            break;
        }
        run_case(ctx, idx, &v1, &multi);
    }
    ctx.rep.exhaustive = Some(ctx.rep.get("dfs_truncated") == 0 && ctx.rep.get("cases_skipped_deadline") == 0);
}
