//! Observables of an engine and comparison against a freshly built replay engine.

use crate::engine::*;
use crate::rng::Rng;
use crate::vocab::Vocab;
use llguidance::api::StopReason;
use llguidance::{Matcher, ParserFactory};
use serde_json::{json, Value};

#[derive(Clone, Debug, PartialEq)]
pub struct Obs {
    pub mask: Option<Vec<u32>>,
    pub accepting: Option<bool>,
    pub ff_bytes: Vec<u8>,
    pub ff_tokens: Vec<u32>,
    pub stopped: bool,
    pub stop_reason: StopReason,
}

impl Obs {
    pub fn brief(&self) -> Value {
        json!({
            "mask_len": self.mask.as_ref().map(|m| m.len()),
            "mask_head": self.mask.as_ref().map(|m| m.iter().take(12).collect::<Vec<_>>()),
            "accepting": self.accepting,
            "ff_bytes": crate::report::bytes_dbg(&self.ff_bytes),
            "ff_tokens": self.ff_tokens,
            "stopped": self.stopped,
            "stop_reason": format!("{:?}", self.stop_reason),
        })
    }
}

/// fresh engine that replayed `hist` (None if grammar does not compile or replay fails)
pub fn fresh_replay(f: &ParserFactory, g: &GCase, hist: &[u32]) -> Option<Matcher> {
    let mut m = matcher(f, g).ok()?;
    if m.is_error() {
        return None;
    }
    for &t in hist {
        if m.consume_token(t).is_err() {
            return None;
        }
    }
    Some(m)
}

#[derive(Clone, Copy, Debug, PartialEq)]
pub enum Query {
    Mask,
    Accepting,
    FfBytes,
    FfTokens,
    Stop,
}

pub const ALL_QUERIES: [Query; 5] = [Query::Mask, Query::Accepting, Query::FfBytes, Query::FfTokens, Query::Stop];

#[derive(Clone, Debug, PartialEq)]
pub enum Ans {
    Mask(Option<Vec<u32>>),
    Bool(Option<bool>),
    Bytes(Vec<u8>),
    Toks(Vec<u32>),
    Stop(bool, StopReason),
}

pub fn ask(m: &mut Matcher, q: Query, n: usize) -> Ans {
    match q {
        Query::Mask => Ans::Mask(m.compute_mask().ok().map(|x| mask_list(&x, n))),
        Query::Accepting => Ans::Bool(m.is_accepting().ok()),
        Query::FfBytes => Ans::Bytes(m.compute_ff_bytes()),
        Query::FfTokens => Ans::Toks(m.compute_ff_tokens()),
        Query::Stop => Ans::Stop(m.is_stopped(), m.stop_reason()),
    }
}

pub fn ans_brief(a: &Ans) -> Value {
    match a {
        Ans::Mask(m) => json!({"mask_len": m.as_ref().map(|m| m.len()), "mask_head": m.as_ref().map(|m| m.iter().take(16).collect::<Vec<_>>())}),
        Ans::Bool(b) => json!(b),
        Ans::Bytes(b) => json!(crate::report::bytes_dbg(b)),
        Ans::Toks(t) => json!(t),
        Ans::Stop(s, r) => json!({"stopped": s, "reason": format!("{r:?}")}),
    }
}

pub fn mask_delta(a: &Ans, b: &Ans) -> Value {
    if let (Ans::Mask(Some(x)), Ans::Mask(Some(y))) = (a, b) {
        let sx: std::collections::BTreeSet<_> = x.iter().collect();
        let sy: std::collections::BTreeSet<_> = y.iter().collect();
        json!({"only_in_tested": sx.difference(&sy).take(8).collect::<Vec<_>>(), "only_in_reference": sy.difference(&sx).take(8).collect::<Vec<_>>()})
    } else {
        Value::Null
    }
}

/// Each query answered by `m` must equal the answer of a *fresh* replay engine asked only
/// that query. Returns the first disagreement.
pub fn compare_queries_with_fresh(
    rng: &mut Rng,
    m: &mut Matcher,
    f: &ParserFactory,
    g: &GCase,
    v: &Vocab,
    hist: &[u32],
    queries: &[Query],
    isolate: bool,
) -> Result<usize, (String, Value)> {
    let mut qs = queries.to_vec();
    rng.shuffle(&mut qs);
    let mut n = 0;
    let mut asked: Vec<String> = vec![];
    for q in qs {
        // isolate: every query on its own deep clone, so that queries cannot influence each other
        // (interference between queries is C11's subject, not C12's)
        let got = if isolate { ask(&mut m.deep_clone(), q, v.n()) } else { ask(m, q, v.n()) };
        if !isolate {
            asked.push(format!("{q:?}"));
        }
        let Some(mut fr) = fresh_replay(f, g, hist) else {
            return Err(("fresh_replay_failed".into(), json!({"hist": hist})));
        };
        let want = ask(&mut fr, q, v.n());
        n += 1;
        if got != want {
            return Err((
                format!("differs_from_fresh_{q:?}").to_lowercase(),
                json!({"query": format!("{q:?}"), "tested": ans_brief(&got), "fresh": ans_brief(&want), "delta": mask_delta(&got, &want),
                       "asked_in_order": asked, "ff_bytes_asked_before": asked.iter().rev().skip(1).any(|a| a == "FfBytes")}),
            ));
        }
    }
    Ok(n)
}

/// Drive both engines with the same tokens for `steps` steps comparing every mask.
pub fn lockstep(rng: &mut Rng, a: &mut Matcher, b: &mut Matcher, v: &Vocab, steps: usize) -> Result<usize, (String, Value)> {
    let mut done = 0;
    let mut path = vec![];
    for step in 0..steps {
        let sa = (a.is_stopped(), a.stop_reason());
        let sb = (b.is_stopped(), b.stop_reason());
        if sa != sb {
            return Err(("lockstep_stop_differs".into(), json!({"path": path, "tested": format!("{sa:?}"), "reference": format!("{sb:?}")})));
        }
        if sa.0 {
            break;
        }
        let ma = a.compute_mask().ok();
        let mb = b.compute_mask().ok();
        let la = ma.as_ref().map(|m| mask_list(m, v.n()));
        let lb = mb.as_ref().map(|m| mask_list(m, v.n()));
        done += 1;
        if la != lb {
            return Err((
                "lockstep_mask_differs".into(),
                json!({"path": path, "step": step, "delta": mask_delta(&Ans::Mask(la), &Ans::Mask(lb))}),
            ));
        }
        let Some(mask) = ma else { break };
        let pol = crate::walker::policy_for_step(rng, step, steps);
        let Some(t) = crate::walker::choose(rng, &mask, v, pol) else { break };
        let ra = a.consume_token(t).is_ok();
        let rb = b.consume_token(t).is_ok();
        path.push(t);
        if ra != rb {
            return Err(("lockstep_commit_differs".into(), json!({"path": path, "tested_ok": ra, "reference_ok": rb})));
        }
        if !ra {
            break;
        }
    }
    Ok(done)
}

/// next token for the engine under test, chosen from the mask of an independent fresh replay
/// engine so that the tested engine sees a commit with no mask computation before it
pub fn choose_via_fresh(rng: &mut Rng, f: &ParserFactory, g: &GCase, v: &Vocab, hist: &[u32], pol: crate::walker::Policy) -> Option<u32> {
    let mut fr = fresh_replay(f, g, hist)?;
    if fr.is_stopped() {
        return None;
    }
    let mask = fr.compute_mask().ok()?;
    crate::walker::choose(rng, &mask, v, pol)
}
