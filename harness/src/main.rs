#![allow(dead_code)]
//! llgv: runtime monitors for guidance-ai/llguidance. `llgv <PROP> [--tier ..] [--seed ..]
//! [--shard k/n] [--only idx] --out file`

mod corpus;
mod ctx;
mod engine;
mod formats;
mod gen_cfg;
mod gen_json;
mod gen_regex;
mod mon_c01;
mod pool;
mod ref_dfa;
mod ref_earley;
mod ref_json;
mod report;
mod rng;
mod selftest;
mod vocab;
mod walker;

use ctx::Ctx;

fn install_panic_hook() {
    // llguidance installs its own hook lazily (Once); trigger it first so ours wraps it
    let _ = llguidance::panic_utils::catch_unwind(std::panic::AssertUnwindSafe(|| Ok::<(), anyhow::Error>(())));
    let prev = std::panic::take_hook();
    std::panic::set_hook(Box::new(move |info| {
        PANICS.fetch_add(1, std::sync::atomic::Ordering::SeqCst);
        if std::env::var("LLGV_SHOW_PANICS").is_ok() {
            eprintln!("[llgv] panic: {info}");
        }
        prev(info);
    }));
}

pub static PANICS: std::sync::atomic::AtomicU64 = std::sync::atomic::AtomicU64::new(0);

fn main() {
    let args: Vec<String> = std::env::args().collect();
    if args.len() < 2 {
        eprintln!("usage: llgv <PROP|selftest> [options]");
        std::process::exit(2);
    }
    install_panic_hook();
    let prop = args[1].clone();
    let mut ctx = Ctx::new(&prop, &args[2..]);
    match prop.as_str() {
        "selftest" => selftest::run(&mut ctx),
        "lint" => {
            // print compile errors of pool grammars (development aid)
            let v = vocab::v1(false);
            let f = engine::factory(&v, &engine::FactoryOpts::default()).unwrap();
            let n: u64 = ctx.arg("--n").and_then(|x| x.parse().ok()).unwrap_or(300);
            for i in 0..n {
                let mut rng = ctx.case_rng(i);
                let g = pool::grammar(&mut rng, i);
                match engine::parser(&f, &g) {
                    Ok(_) => {}
                    Err(e) => println!("--- {} {:?}\n{}\n=> {}", g.name, g.kind, g.text, e.to_string().lines().take(6).collect::<Vec<_>>().join("\n   ")),
                }
            }
            return;
        }
        "C01" => mon_c01::run(&mut ctx),
        _ => {
            eprintln!("unknown property {prop}");
            std::process::exit(2);
        }
    }
    ctx.rep.add("engine_panics_observed", PANICS.load(std::sync::atomic::Ordering::SeqCst));
    ctx.rep.add("wall_ms", ctx.start.elapsed().as_millis() as u64);
    let out = serde_json::to_string(&ctx.rep.to_json()).unwrap();
    match ctx.arg("--out") {
        Some(p) => std::fs::write(p, out).unwrap(),
        None => println!("{out}"),
    }
}
