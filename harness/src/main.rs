#![allow(dead_code)]
//! llgv: runtime monitors for guidance-ai/llguidance. `llgv <PROP> [--tier ..] [--seed ..]
//! [--shard k/n] [--only idx] --out file`

mod corpus;
mod ctx;
mod engine;
mod formats;
mod gen_cfg;
mod gen_json;
mod gen_regex;
mod cmp;
mod mon_c01;
mod mon_c02;
mod mon_c03;
mod tp;
mod mon_c04;
mod mon_c05;
mod mon_c06;
mod mon_c07;
mod judge;
mod mon_c08;
mod mon_c09;
mod mon_c10;
mod mon_c11;
mod mon_c12;
mod mon_c13;
mod mon_c14;
mod mon_c15;
mod mon_c16;
mod mon_c17;
mod mon_c17_aux;
mod mon_c18;
mod mon_c19;
mod mon_c20;
mod mon_c16_core;
mod pool;
mod ref_dfa;
mod ref_earley;
mod ref_json;
mod report;
mod rng;
mod selftest;
mod vocab;
mod walker;

use ctx::Ctx;

fn install_panic_hook() {
    // llguidance installs its own hook lazily (Once); trigger it first so ours wraps it
    let _ = llguidance::panic_utils::catch_unwind(std::panic::AssertUnwindSafe(|| Ok::<(), anyhow::Error>(())));
    let prev = std::panic::take_hook();
    std::panic::set_hook(Box::new(move |info| {
        PANICS.fetch_add(1, std::sync::atomic::Ordering::SeqCst);
        if let Ok(mut l) = mon_c20::LAST_PANIC.try_lock() {
            *l = info.to_string();
        }
        if std::env::var("LLGV_SHOW_PANICS").is_ok() {
            eprintln!("[llgv] panic: {info}");
        }
        prev(info);
    }));
}

pub static PANICS: std::sync::atomic::AtomicU64 = std::sync::atomic::AtomicU64::new(0);

fn main() {
    let args: Vec<String> = std::env::args().collect();
    if args.len() < 2 {
        eprintln!("usage: llgv <PROP|selftest> [options]");
        std::process::exit(2);
    }
    install_panic_hook();
    let prop = args[1].clone();
    let mut ctx = Ctx::new(&prop, &args[2..]);
    match prop.as_str() {
        "selftest" => selftest::run(&mut ctx),
        "probe" => {
            // llgv probe --kind lark|regex|json --text '...' [--bytes 'abc']: development aid
            let v = vocab::v1(ctx.arg("--canon").is_some());
            let f = engine::factory(&v, &engine::FactoryOpts::default()).unwrap();
            let text = ctx.arg("--text").unwrap_or_default();
            let g = match ctx.arg("--kind").as_deref() {
                Some("regex") => engine::GCase::regex("probe", &text),
                Some("json") => engine::GCase::json("probe", &text),
                _ => engine::GCase::lark("probe", &text),
            };
            match engine::matcher(&f, &g) {
                Err(e) => println!("compile error: {e}"),
                Ok(mut m) => {
                    println!("is_error={} {:?}", m.is_error(), m.get_error());
                    if ctx.arg("--pre").as_deref() == Some("ffbytes") {
                        println!("ff_bytes: {:?}", report::bytes_dbg(&m.compute_ff_bytes()));
                    }
                    if ctx.arg("--pre").as_deref() == Some("fftokens") {
                        println!("ff_tokens: {:?}", m.compute_ff_tokens());
                    }
                    let bytes = ctx.arg("--bytes").unwrap_or_default();
                    for b in bytes.bytes().map(Some).chain([None]) {
                        let mask = m.compute_mask();
                        match &mask {
                            Ok(x) => println!("mask: {:?} accepting={:?}", engine::mask_list(x, v.n()).iter().map(|&t| if t < 256 { (t as u8 as char).to_string() } else { format!("<{t}>") }).collect::<Vec<_>>().join(""), m.is_accepting()),
                            Err(e) => println!("mask error: {} stop={:?}", e.to_string().lines().next().unwrap_or(""), m.stop_reason()),
                        }
                        if let Some(b) = b {
                            println!("consume {:?}: {:?} stopped={} {:?}", b as char, m.consume_token(b as u32).map_err(|e| e.to_string().lines().next().unwrap_or("").to_string()), m.is_stopped(), m.stop_reason());
                        }
                    }
                }
            }
            return;
        }
        "accepts" => {
            // llgv accepts --kind json --text SCHEMA --lits 'a,b,c' : which literals are complete strings
            let v = vocab::v1(false);
            let f = engine::factory_noslice(&v).unwrap();
            let text = ctx.arg("--text").unwrap_or_default();
            let g = match ctx.arg("--kind").as_deref() {
                Some("regex") => engine::GCase::regex("probe", &text),
                Some("lark") => engine::GCase::lark("probe", &text),
                _ => engine::GCase::json("probe", &text),
            };
            match engine::matcher(&f, &g) {
                Err(e) => println!("compile error: {}", e.to_string().lines().next().unwrap_or("")),
                Ok(m0) => {
                    if m0.is_error() {
                        println!("error: {:?}", m0.get_error().map(|e| e.lines().next().unwrap_or("").to_string()));
                    }
                    for lit in ctx.arg("--lits").unwrap_or_default().split(',') {
                        let mut m = m0.clone();
                        let mut ok = true;
                        let mut pos = 0;
                        for &b in lit.as_bytes() {
                            if m.is_stopped() || m.consume_token(b as u32).is_err() {
                                ok = false;
                                break;
                            }
                            pos += 1;
                        }
                        let acc = ok && (if m.is_stopped() { m.stop_reason().is_ok() } else { m.is_accepting().unwrap_or(false) });
                        println!("{lit:>14}: prefix_ok={ok} (bytes {pos}) complete={acc}");
                    }
                }
            }
            return;
        }
        "lint" => {
            // print compile errors of pool grammars (development aid)
            let v = vocab::v1(false);
            let f = engine::factory(&v, &engine::FactoryOpts::default()).unwrap();
            let n: u64 = ctx.arg("--n").and_then(|x| x.parse().ok()).unwrap_or(300);
            for i in 0..n {
                let mut rng = ctx.case_rng(i);
                let g = pool::grammar(&mut rng, i);
                match engine::parser(&f, &g) {
                    Ok(_) => {}
                    Err(e) => println!("--- {} {:?}\n{}\n=> {}", g.name, g.kind, g.text, e.to_string().lines().take(6).collect::<Vec<_>>().join("\n   ")),
                }
            }
            return;
        }
        "C01" => mon_c01::run(&mut ctx),
        "C02" => mon_c02::run(&mut ctx),
        "C03" => mon_c03::run(&mut ctx),
        "C04" => mon_c04::run(&mut ctx),
        "C05" => mon_c05::run(&mut ctx),
        "C06" => mon_c06::run(&mut ctx),
        "C07" => mon_c07::run(&mut ctx),
        "C08" => mon_c08::run(&mut ctx),
        "C09" => mon_c09::run(&mut ctx),
        "C10" => mon_c10::run(&mut ctx),
        "C11" => mon_c11::run(&mut ctx),
        "C12" => mon_c12::run(&mut ctx),
        "C13" => mon_c13::run(&mut ctx),
        "C14" => mon_c14::run(&mut ctx),
        "C15" => mon_c15::run(&mut ctx),
        "C16" => mon_c16::run(&mut ctx),
        "C17" => mon_c17::run(&mut ctx),
        "C18" => mon_c18::run(&mut ctx),
        "C19" => mon_c19::run(&mut ctx),
        "C20" => mon_c20::run(&mut ctx),
        "C20show" => {
            let c2 = Ctx::new("C20", &args[2..]);
            let idx = c2.only.unwrap_or(0);
            let mut rng = c2.case_rng(idx);
            let case = mon_c20::gen_case(&mut rng, idx);
            println!("class={} tight={} kind={}", case.class, case.tight, case.kind);
            if let Some(g) = &case.g {
                println!("grammar kind={:?} len={}\n{}", g.kind, g.text.len(), g.text.chars().take(1500).collect::<String>());
            }
            println!("slices={:?}", case.slices);
            return;
        }
        _ => {
            eprintln!("unknown property {prop}");
            std::process::exit(2);
        }
    }
    ctx.rep.add("engine_panics_observed", PANICS.load(std::sync::atomic::Ordering::SeqCst));
    ctx.rep.add("wall_ms", ctx.start.elapsed().as_millis() as u64);
    let out = serde_json::to_string(&ctx.rep.to_json()).unwrap();
    match ctx.arg("--out") {
        Some(p) => std::fs::write(p, out).unwrap(),
        None => println!("{out}"),
    }
}
