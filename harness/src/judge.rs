//! Three-valued judgement of a JSON text against a schema: harness validator (decider for
//! numeric keywords and duplicate keys) + the vendored `jsonschema` crate as second opinion.

use crate::ref_json::{JParser, Validator, Verdict, J};
use serde_json::Value;

#[derive(Debug, Clone, PartialEq)]
pub enum Judgement {
    Valid,
    Invalid(String),
    Inconclusive(String),
}

pub struct Judge {
    pub schema: Value,
    second: Option<jsonschema::Validator>,
    has_multiple_of: bool,
}

fn mentions(s: &Value, key: &str) -> bool {
    match s {
        Value::Object(o) => o.iter().any(|(k, v)| k == key || mentions(v, key)),
        Value::Array(a) => a.iter().any(|v| mentions(v, key)),
        _ => false,
    }
}

impl Judge {
    pub fn new(schema: &Value) -> Judge {
        let mut clean = schema.clone();
        if let Some(o) = clean.as_object_mut() {
            o.remove("x-guidance");
        }
        let second = jsonschema::draft202012::options().should_validate_formats(true).build(&clean).ok();
        Judge { has_multiple_of: mentions(&clean, "multipleOf"), schema: clean, second }
    }

    pub fn judge_text(&self, text: &[u8]) -> Judgement {
        let j = match JParser::parse(text) {
            Ok(j) => j,
            Err(e) => return Judgement::Invalid(format!("not well-formed JSON: {} at {}", e.0, e.1)),
        };
        self.judge(&j)
    }

    /// verdict of the harness's own reference validator alone (used to verify the shape of a known finding:
    /// "nothing but this one field keeps the output from validating")
    pub fn reference_says_valid(&self, text: &[u8]) -> bool {
        match JParser::parse(text) {
            Ok(j) => matches!(Validator::new(&self.schema).validate(&self.schema, &j), Verdict::Valid),
            Err(_) => false,
        }
    }

    pub fn judge(&self, j: &J) -> Judgement {
        let mine = Validator::new(&self.schema).validate(&self.schema, j);
        let theirs: Option<bool> = match (&self.second, j.to_value()) {
            (Some(v), Some(val)) => Some(v.is_valid(&val)),
            _ => None,
        };
        match (mine, theirs) {
            (Verdict::Valid, Some(true)) | (Verdict::Valid, None) => Judgement::Valid,
            (Verdict::Invalid(r), Some(false)) | (Verdict::Invalid(r), None) => Judgement::Invalid(r),
            (Verdict::Invalid(r), Some(true)) => {
                // the crate sees numbers as f64 and objects as maps: those keywords are decided here
                let mine_decides = ["minimum", "maximum", "exclusiveMinimum", "exclusiveMaximum", "multipleOf", "repeated", "minProperties", "maxProperties", "format"]
                    .iter()
                    .any(|k| r.contains(k));
                if mine_decides {
                    Judgement::Invalid(r)
                } else {
                    Judgement::Inconclusive(format!("validators disagree: harness says invalid ({r}), jsonschema crate says valid"))
                }
            }
            (Verdict::Valid, Some(false)) => {
                if self.has_multiple_of {
                    Judgement::Valid // float multipleOf of the crate is known-inexact
                } else {
                    Judgement::Inconclusive("validators disagree: harness says valid, jsonschema crate says invalid".into())
                }
            }
            (Verdict::Unknown(u), Some(true)) => {
                let _ = u;
                Judgement::Valid
            }
            (Verdict::Unknown(u), Some(false)) => {
                if u.contains("multipleOf") || u.contains("number") || u.contains("budget") {
                    // numbers are judged exactly or not at all
                    Judgement::Inconclusive(format!("undecided: {u}"))
                } else {
                    Judgement::Invalid(format!("jsonschema crate says invalid (harness validator undecided: {u})"))
                }
            }
            (Verdict::Unknown(u), None) => Judgement::Inconclusive(format!("undecided: {u}")),
        }
    }
}
