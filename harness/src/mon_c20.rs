//! C20: arbitrary input never crashes, corrupts or hangs the engine.
//! Worker side: generates hostile cases, runs each on a 2 MiB-stack thread under RLIMIT_AS /
//! per-case RLIMIT_CPU, journals BEGIN/END so that the driver can attribute a dead worker to
//! its case, and monitors panics / sticky failures. The driver (props.py) restarts workers
//! after a death and joins the `chk` and `rel` variants for the overflow oracle.

use crate::ctx::Ctx;
use crate::engine::*;
use crate::rng::{fnv, Rng};
use crate::tp::{MaskErr, Tp};
use crate::vocab::{self, Vocab};
use llguidance::api::{ParserLimits, StopReason};
use llguidance::ParserFactory;
use serde_json::{json, Value};
use std::io::Write;
use std::sync::atomic::Ordering;
use std::sync::Mutex;

pub static LAST_PANIC: Mutex<String> = Mutex::new(String::new());

#[derive(Clone, Debug)]
pub struct Case {
    pub kind: &'static str,
    pub g: Option<GCase>,
    pub slices: Option<Vec<String>>,
    pub words: Option<Vec<Vec<u8>>>,
    pub tight: bool,
    pub class: String,
}

fn nest(open: &str, close: &str, inner: &str, n: usize) -> String {
    format!("{}{}{}", open.repeat(n), inner, close.repeat(n))
}

fn mutate_bytes(rng: &mut Rng, s: &str) -> String {
    let mut b = s.as_bytes().to_vec();
    if b.is_empty() {
        return s.to_string();
    }
    for _ in 0..1 + rng.below(4) {
        let i = rng.below(b.len());
        match rng.below(6) {
            0 => {
                b.remove(i);
            }
            1 => b.insert(i, *rng.pick(b"{}[]()\"\\/|&~*+?:,<>0 \n%-")),
            2 => b[i] = rng.below(256) as u8,
            3 => {
                let j = rng.below(b.len());
                let (a, c) = (i.min(j), i.max(j));
                let chunk = b[a..c].to_vec();
                let at = rng.below(b.len());
                for (k, x) in chunk.into_iter().take(200).enumerate() {
                    b.insert((at + k).min(b.len()), x);
                }
            }
            4 => {
                let j = rng.below(b.len());
                b.swap(i, j);
            }
            _ => {
                let n = [0u64, 1, 255, 256, 65535, 65536, 4294967295, 4294967296, 1 << 53, u64::MAX][rng.below(10)];
                let t = n.to_string().into_bytes();
                for (k, x) in t.into_iter().enumerate() {
                    b.insert((i + k).min(b.len()), x);
                }
            }
        }
        if b.is_empty() {
            break;
        }
    }
    String::from_utf8_lossy(&b).to_string()
}

fn mutate_json_tree(rng: &mut Rng, v: &mut Value, depth: u32) {
    let big = [0i64, -1, 1, 65536, 1 << 31, (1 << 32) - 1, 1 << 32, i64::MAX, 3_000_000, 100_000];
    match v {
        Value::Object(o) => {
            let keys: Vec<String> = o.keys().cloned().collect();
            if keys.is_empty() || rng.chance(1, 5) {
                let k = *rng.pick(&["minItems", "maxItems", "minLength", "maxLength", "minProperties", "maxProperties", "multipleOf", "minimum", "maximum", "pattern", "format", "$ref", "type", "enum", "const", "items", "x-guidance", "allOf"]);
                let val = match rng.below(6) {
                    0 => json!(*rng.pick(&big)),
                    1 => json!(1e300),
                    2 => json!(-0.0),
                    3 => json!("#"),
                    4 => json!([{"$ref": "#"}, {"$ref": "#"}]),
                    _ => json!({"$ref": "#/nowhere"}),
                };
                o.insert(k.to_string(), val);
                return;
            }
            let k = rng.pick(&keys).clone();
            if rng.chance(1, 6) {
                o.remove(&k);
            } else if depth < 6 {
                mutate_json_tree(rng, o.get_mut(&k).unwrap(), depth + 1);
            }
        }
        Value::Array(a) => {
            if a.is_empty() || rng.chance(1, 5) {
                a.push(json!(*rng.pick(&big)));
            } else {
                let i = rng.below(a.len());
                if rng.chance(1, 6) {
                    let x = a[i].clone();
                    for _ in 0..rng.below(40) {
                        a.push(x.clone());
                    }
                } else {
                    mutate_json_tree(rng, &mut a[i], depth + 1);
                }
            }
        }
        Value::Number(_) => *v = json!(*rng.pick(&big)),
        Value::String(s) => {
            if rng.chance(1, 2) {
                *s = mutate_bytes(rng, s);
            } else {
                *v = json!(*rng.pick(&big));
            }
        }
        _ => *v = json!({"type": ["string", 7]}),
    }
}

pub static THOROUGH: std::sync::atomic::AtomicBool = std::sync::atomic::AtomicBool::new(false);

pub fn gen_case(rng: &mut Rng, idx: u64) -> Case {
    let tight = rng.chance(1, 4);
    let corpus = crate::corpus::all_corpus();
    let mk = |kind: &'static str, g: GCase, class: &str| Case { kind, g: Some(g), slices: None, words: None, tight, class: class.to_string() };
    let depth = [10usize, 100, 1000, 10000, 100000][rng.below(5)];
    let big = ["65535", "65536", "1000000", "3000000", "4294967295", "4294967296", "18446744073709551615", "1e9", "100000", "16777216"];
    match rng.below(31) {
        0 => {
            let n = rng.below(200);
            let bytes: Vec<u8> = (0..n).map(|_| rng.below(256) as u8).collect();
            mk("lark", GCase::lark("rnd", &String::from_utf8_lossy(&bytes)), "random_bytes")
        }
        1 => {
            let n = rng.below(120);
            let toks = ["start", ":", "|", "\"a\"", "/x/", "(", ")", "[", "]", "{", "}", "~", "&", "*", "+", "?", "%json", "%regex", "%ignore", "%llguidance", "<a>", "<[1-3]>", "@g", "::", "_", "%if", "\n", "A", "B", "b", "0x1", "3", ",", "..", "->", "=", "lazy", "max_tokens", "stop"];
            let s: String = (0..n).map(|_| format!("{} ", rng.pick(&toks))).collect();
            mk("lark", GCase::lark("rndtok", &format!("start: b\nb: {s}\n")), "random_lark_tokens")
        }
        2..=4 => {
            let c = rng.pick(&corpus).clone();
            let t = mutate_bytes(rng, &c.text);
            let g = GCase { text: t, ..c.clone() };
            Case { kind: "mutated", g: Some(g), slices: None, words: None, tight, class: "corpus_byte_mutation".into() }
        }
        5..=7 => {
            let js = crate::corpus::json_corpus();
            let c = rng.pick(&js);
            let mut v: Value = serde_json::from_str(&c.text).unwrap();
            for _ in 0..1 + rng.below(3) {
                mutate_json_tree(rng, &mut v, 0);
            }
            mk("json", GCase::json("mutjs", &v.to_string()), "json_tree_mutation")
        }
        8 => mk("lark", GCase::lark("deep_paren", &format!("start: {}\n", nest("(", ")", "\"a\"", depth))), "deep_parens"),
        9 => {
            if rng.chance(1, 2) {
                mk("lark", GCase::lark("deep_brack", &format!("start: {}\n", nest("[", "]", "\"a\"", depth))), "deep_brackets")
            } else {
                // inline grammars nested in inline grammars
                let d = depth.min(20000);
                mk("lark", GCase::lark("deep_inline", &format!("start: {}\n", nest("%lark { start: ", " }", "\"a\"", d))), "deep_nested_inline_grammars")
            }
        }
        10 => mk("lark", GCase::lark("deep_not", &format!("start: T\nT: {}/a/\n", "~".repeat(depth))), "deep_not"),
        11 => mk("regex", GCase::regex("deep_rx", &nest("(", ")", "a", depth)), "deep_regex_group"),
        12 => mk("regex", GCase::regex("deep_rx_rep", &format!("a{}", "{2}".repeat(depth.min(2000)))), "nested_repeat"),
        13 => {
            // built textually: dropping a 20000-deep serde Value would itself overflow the stack
            let d = depth.min(20000);
            mk("json", GCase::json("deep_allof", &nest("{\"allOf\":[", "]}", "{\"type\":\"integer\"}", d)), "deep_allOf")
        }
        14 => {
            let d = depth.min(20000);
            mk("json", GCase::json("deep_items", &nest("{\"type\":\"array\",\"items\":", "}", "{\"type\":\"integer\"}", d)), "deep_items")
        }
        15 => {
            let k = *rng.pick(&["maxItems", "minItems", "maxLength", "minLength", "maxProperties", "minProperties"]);
            let n = *rng.pick(&big);
            let base = if k.contains("Items") { "\"type\":\"array\",\"items\":{\"type\":\"integer\"}" } else if k.contains("Length") { "\"type\":\"string\"" } else { "\"type\":\"object\",\"additionalProperties\":{\"type\":\"null\"}" };
            mk("json", GCase::json("huge_bound", &format!("{{{base},\"{k}\":{n}}}")), &format!("huge_{k}"))
        }
        16 => {
            let (a, b) = *rng.pick(&[(65537u64, 65539u64), (4294967291, 3), (99991, 99989), (65536, 65537), (1000003, 999983), (4294967295, 4294967294)]);
            let sc = *rng.pick(&["1", "0.1", "0.001"]);
            let s = format!("{{\"allOf\":[{{\"type\":\"number\",\"multipleOf\":{}}},{{\"multipleOf\":{}}}]}}", mulstr(a, sc), mulstr(b, sc));
            mk("json", GCase::json("lcm", &s), "multipleOf_lcm")
        }
        17 => {
            let n = *rng.pick(&big);
            let q = *rng.pick(&["a{N}", "(ab){0,N}", "[a-z]{N,}", "(a|b){N}{2}", "a{N}{N}"]);
            mk("regex", GCase::regex("huge_rep", &q.replace('N', n)), "huge_regex_repeat")
        }
        18 => {
            let n = *rng.pick(&["65536", "100000", "4294967295", "4294967296"]);
            mk("lark", GCase::lark("huge_lark_rep", &format!("start: x{{{n}}}\nx: \"a\"\n")), "huge_lark_repeat")
        }
        19 => {
            // 1 MB in the thorough tier; 100 kB in the quick tier (the 1 MB case alone costs ~17 s CPU and several GiB)
            let lit = "ab".repeat(if THOROUGH.load(std::sync::atomic::Ordering::Relaxed) { 500_000 } else { 50_000 });
            mk("lark", GCase::lark("big_lit", &format!("start: \"{lit}\"\n")), "huge_literal")
        }
        20 => {
            let exts = ["1e308", "-1e308", "1e-320", "9007199254740993", "-9223372036854775809", "0.1000000000000000055511151231257827", "1e400", "NaN"];
            let a = rng.pick(&exts);
            let b = rng.pick(&exts);
            if rng.chance(1, 3) {
                // a single large integer multipleOf (the number lexeme is built by counting remainders)
                let quick = ["65535", "65536", "1000000", "3000000"];
                let thorough = ["65536", "3000000", "16777216", "2147483648", "4294967295", "4294967296"];
                let m = if THOROUGH.load(std::sync::atomic::Ordering::Relaxed) { *rng.pick(&thorough) } else { *rng.pick(&quick) };
                let ty = *rng.pick(&["integer", "number"]);
                return mk("json", GCase::json("huge_mult", &format!("{{\"type\":\"{ty}\",\"multipleOf\":{m}}}")), "huge_multipleOf");
            }
            mk("json", GCase::json("num_ext", &format!("{{\"type\":\"number\",\"minimum\":{a},\"maximum\":{b},\"multipleOf\":{}}}", rng.pick(&["1e-10", "0", "1e300", "3", "-2"]))), "numeric_extremes")
        }
        21 => {
            let mut props = String::new();
            let n = [10usize, 1000, 20000][rng.below(3)];
            for i in 0..n {
                props.push_str(&format!("{}\"k{i}\":{{\"type\":\"integer\"}}", if i > 0 { "," } else { "" }));
            }
            mk("json", GCase::json("wide", &format!("{{\"type\":\"object\",\"properties\":{{{props}}}}}")), "wide_object")
        }
        22 if rng.chance(1, 2) => {
            // definitions that are nothing but references to one another: cycles of length 1..4 and long alias chains,
            // reached from the root, a property, array items or a %json block inside a Lark grammar
            let n = 1 + rng.below(4);
            let chain = rng.chance(1, 3);
            let len = if chain { [5usize, 60, 600][rng.below(3)] } else { n };
            let mut defs = String::new();
            for i in 0..len {
                let target = if i + 1 < len { format!("#/$defs/r{}", i + 1) } else if chain { "#/$defs/leaf".to_string() } else { "#/$defs/r0".to_string() };
                defs.push_str(&format!("\"r{i}\":{{\"$ref\":\"{target}\"}},"));
            }
            defs.push_str("\"leaf\":{\"type\":\"integer\"}");
            let schema = match rng.below(4) {
                0 => format!("{{\"$ref\":\"#/$defs/r0\",\"$defs\":{{{defs}}}}}"),
                1 => format!("{{\"type\":\"object\",\"properties\":{{\"p\":{{\"$ref\":\"#/$defs/r0\"}},\"q\":{{\"type\":\"boolean\"}}}},\"required\":[\"q\"],\"$defs\":{{{defs}}}}}"),
                2 => format!("{{\"type\":\"array\",\"items\":{{\"$ref\":\"#/$defs/r{}\"}},\"$defs\":{{{defs}}}}}", rng.below(len)),
                _ => format!("{{\"anyOf\":[{{\"type\":\"null\"}},{{\"$ref\":\"#/$defs/r0\"}}],\"$defs\":{{{defs}}}}}"),
            };
            if rng.chance(1, 4) {
                mk("lark", GCase::lark("alias_cycle_lark", &format!("start: \"x\" j\nj: %json {schema}\n")), "ref_alias_cycles")
            } else {
                mk("json", GCase::json("alias_cycle", &schema), "ref_alias_cycles")
            }
        }
        22 => {
            let refs = ["#", "#/$defs/a", "#/properties/x", "#/$defs/a/$defs/a", "http://x/y", "", "#/%", "#/$defs/~"];
            mk("json", GCase::json("refs", &format!("{{\"$defs\":{{\"a\":{{\"$ref\":\"{}\"}}}},\"properties\":{{\"x\":{{\"$ref\":\"{}\"}}}},\"$ref\":\"{}\"}}", rng.pick(&refs), rng.pick(&refs), rng.pick(&refs))), "ref_cycles")
        }
        23 => {
            // parametric conditions: deep nesting and extreme bit indices
            let d = depth.min(3000);
            let cond = nest("not(", ")", "true", d);
            mk("lark", GCase::lark("param", &format!("start: p::0\np::_: \"a\" p::incr([0:{}]) %if {cond}\n | \"\"\n", [1, 63, 64, 65, 4096][rng.below(5)])), "parametric_extremes")
        }
        24 => {
            let pool = ["[a-z]+", "(", "a{4294967296}", "", "[^\"]{1,10}", "\\p{L}+", "(?P<x>a)", "a**", "[[:alpha:]]", "\\xff", "(?s:.*)", "."];
            let n = rng.below(6);
            Case { kind: "slices", g: Some(rng.pick(&corpus).clone()), slices: Some((0..n).map(|_| rng.pick(&pool).to_string()).collect()), words: None, tight, class: "random_slices".into() }
        }
        25 => {
            // degenerate vocabularies (sizes consistent, EOS in range)
            let words: Vec<Vec<u8>> = match rng.below(7) {
                0 => vec![vec![]],
                1 => vec![b"a".to_vec()],
                2 => vec![vec![0xFF], vec![0xFF, 0xFF], vec![]],
                3 => (0..40).map(|_| vec![]).collect(),
                4 => vec![vec![b'a'; 5000], b"a".to_vec(), b"b".to_vec()],
                5 => (0..300).map(|i| vec![b'x'; i % 7]).collect(),
                _ => (0..=255u8).map(|b| vec![b, b]).collect(),
            };
            Case { kind: "vocab", g: Some(rng.pick(&corpus).clone()), slices: None, words: Some(words), tight, class: "degenerate_vocabulary".into() }
        }
        26 => {
            let c = rng.pick(&corpus).clone();
            Case { kind: "ops", g: Some(c), slices: None, words: None, tight: true, class: "tight_limits_on_corpus".into() }
        }
        27 => {
            let g = crate::pool::grammar(rng, 1_000_000 + idx);
            Case { kind: "ops", g: Some(g), slices: None, words: None, tight, class: "generated_grammar_ops".into() }
        }
        28 => {
            let inner = ["%json {", "%regex {", "%llguidance {", "%lark {"];
            let t = format!("start: {} {}", rng.pick(&inner), mutate_bytes(rng, "\"substring_chunks\": [\"a\", \"b\"], \"type\": \"object\" } }"));
            mk("lark", GCase::lark("inline", &t), "inline_json_in_lark")
        }
        29 => {
            // raw token-id ranges around the ends of the vocabulary (@N@ = vocabulary size, substituted in run_one)
            // ends ordered by value (N is a few hundred), so that a <= b in most ranges
            let ends = ["0", "1", "31", "32", "255", "256", "@N-2@", "@N-1@", "@N@", "@N+1@", "2147483648", "4294967295", "4294967296"];
            let mut atom = |rng: &mut Rng| {
                let k = 1 + rng.below(3);
                let parts: Vec<String> = (0..k)
                    .map(|_| {
                        let mut i = rng.below(ends.len());
                        let mut j = rng.below(ends.len());
                        if i > j && !rng.chance(1, 8) {
                            std::mem::swap(&mut i, &mut j);
                        }
                        if i == j || rng.chance(1, 4) { ends[i].to_string() } else { format!("{}-{}", ends[i], ends[j]) }
                    })
                    .collect();
                format!("<[{}{}]>", if rng.chance(1, 3) { "^" } else { "" }, parts.join(","))
            };
            let t = match rng.below(3) {
                0 => format!("start: {}\n", atom(rng)),
                1 => format!("start: \"a\" {} \"b\"\n", atom(rng)),
                _ => format!("start: \"a\" ({} | {})* \"b\"\n", atom(rng), atom(rng)),
            };
            mk("lark", GCase::lark("tokrange", &t), "token_range_extremes")
        }
        _ => {
            let c = rng.pick(&corpus).clone();
            Case { kind: "ops", g: Some(c), slices: None, words: None, tight, class: "corpus_ops".into() }
        }
    }
}

fn mulstr(a: u64, scale: &str) -> String {
    match scale {
        "1" => a.to_string(),
        "0.1" => format!("{}.{}", a / 10, a % 10),
        _ => format!("{}.{:03}", a / 1000, a % 1000),
    }
}

fn tight_limits() -> ParserLimits {
    ParserLimits { max_items_in_row: 4, initial_lexer_fuel: 2000, step_lexer_fuel: 300, step_max_items: 30, max_lexer_states: 12, max_grammar_size: 60, precompute_large_lexemes: false, verbose_errors: false }
}

#[derive(Debug, Default)]
pub struct Outcome {
    pub built: bool,
    pub usable: bool,
    pub ops_run: usize,
    pub problems: Vec<(String, Value)>,
}

fn panics_now() -> u64 {
    crate::PANICS.load(Ordering::SeqCst)
}

pub fn run_one(case: &Case, seed: u64) -> Outcome {
    let mut out = Outcome::default();
    let mut rng = Rng::new(seed ^ 0xC20);
    let v: Vocab = match &case.words {
        Some(w) => {
            let eos = (w.len() - 1) as u32;
            match std::panic::catch_unwind(|| Vocab::from_words("degenerate", w.clone(), eos, false)) {
                Ok(v) => v,
                Err(_) => {
                    // TokTrie::from refuses this vocabulary by panicking (assert); reported, not a crash
                    return out;
                }
            }
        }
        None => {
            if rng.chance(1, 3) {
                let canon = rng.chance(1, 2);
                vocab::vsyn(&mut rng, &vocab::generic_samples(), 200, canon, "VsynF")
            } else {
                vocab::v1(rng.chance(1, 2))
            }
        }
    };
    let limits = if case.tight { tight_limits() } else { limits_default() };
    let fo = FactoryOpts { slices: case.slices.clone(), ff_tokens: false, limits: Some(limits) };
    let f: ParserFactory = match std::panic::catch_unwind(std::panic::AssertUnwindSafe(|| factory(&v, &fo))) {
        Ok(Ok(f)) => f,
        Ok(Err(_)) => return out,
        Err(_) => {
            out.problems.push(("panic_escaped_factory_construction".into(), json!({"last_panic": LAST_PANIC.lock().unwrap().clone()})));
            return out;
        }
    };
    let Some(g) = &case.g else { return out };
    let g_subst;
    let g = if case.class == "token_range_extremes" {
        let n = v.n() as u64;
        let mut c = g.clone();
        c.text = c.text.replace("@N-2@", &(n - 2).to_string()).replace("@N-1@", &(n - 1).to_string()).replace("@N+1@", &(n + 1).to_string()).replace("@N@", &n.to_string());
        g_subst = c;
        &g_subst
    } else {
        g
    };
    let p0 = panics_now();
    let tp = match std::panic::catch_unwind(std::panic::AssertUnwindSafe(|| Tp::new(&f, g))) {
        Ok(Ok(tp)) => tp,
        Ok(Err(_)) => return out, // reported error (panics at construction are converted by the library)
        Err(_) => {
            out.problems.push(("panic_escaped_parser_construction".into(), json!({"last_panic": LAST_PANIC.lock().unwrap().clone()})));
            return out;
        }
    };
    let _ = p0;
    out.built = true;
    out.usable = true;
    let mut m = tp;
    let n = v.n();
    let mut failed = false;
    let mut hist_len = 0usize;
    let mut hist: Vec<u32> = vec![];
    // half of the cases start with a phase of legal mask+commit steps only, so that positions deeper in
    // the grammar are reached before the hostile calls begin
    let legal_phase = if rng.chance(1, 2) { 4 + rng.below(12) } else { 0 };
    for opi in 0..40 {
        out.ops_run += 1;
        let before = panics_now();
        let was_failed = failed;
        let op = if opi < legal_phase { 0 } else { rng.below(10) };
        match op {
            0..=3 => {
                // mask (always legal while not stopped)
                let stopped = m.stopped();
                match m.mask() {
                    Ok(mask) => {
                        if was_failed {
                            out.problems.push(("failed_engine_answered_a_mask".into(), json!({})));
                        }
                        if let Some(b) = (n..mask.len().max(n)).find(|&b| b < mask.len() && mask.is_allowed(b as u32)) {
                            out.problems.push(("mask_bit_beyond_vocab".into(), json!({"bit": b})));
                        }
                        // commit a token from the mask: legal
                        if let Some(t) = crate::walker::choose(&mut rng, &mask, &v, crate::walker::Policy::Uniform) {
                            let ok = m.consume(t);
                            if ok {
                                hist_len += 1;
                                hist.push(t);
                            } else if case.words.is_some() && t == v.eos {
                                // degenerate vocabularies give the EOS id ordinary text bytes shared with other ids:
                                // its mask bit belongs to the duplicates, its commit is an EOS commit
                                failed = true;
                            } else if !m.is_resource_stop() && !m.panicked && !crate::tp::accepted_with_relaxed_limits(&v, case.slices.clone(), g, &hist, t) {
                                out.problems.push(("masked_token_rejected".into(), json!({"token": t, "stop": format!("{:?}", m.stop_reason())})));
                                failed = true;
                            } else {
                                failed = true;
                            }
                        }
                    }
                    Err(MaskErr::Panic) => {
                        out.problems.push(("panic_in_compute_mask".into(), json!({"last_panic": LAST_PANIC.lock().unwrap().clone()})));
                        failed = true;
                    }
                    Err(MaskErr::Stop(r)) => {
                        if !stopped && !r.is_ok() && !m.is_resource_stop() {
                            out.problems.push(("mask_failed_with_non_resource_stop".into(), json!({"stop": format!("{r:?}")})));
                        }
                        if !r.is_ok() {
                            failed = true;
                        }
                    }
                }
            }
            4 | 5 => {
                // arbitrary token id (possibly illegal): must never panic the process; may fail
                let t = match rng.below(4) {
                    0 => u32::MAX,
                    1 => n as u32,
                    2 => rng.below(n.max(1)) as u32,
                    _ => rng.next_u64() as u32,
                };
                let ok = m.consume(t);
                if ok {
                    hist_len += 1;
                    hist.push(t);
                    if was_failed {
                        out.problems.push(("failed_engine_accepted_a_token".into(), json!({"token": t})));
                    }
                } else {
                    failed = true;
                }
            }
            6 => {
                let k = rng.below(4);
                let seq: Vec<u32> = (0..k).map(|_| if rng.chance(1, 5) { rng.next_u64() as u32 } else { rng.below(n.max(1)) as u32 }).collect();
                let legal = seq.iter().all(|&t| (t as usize) < n);
                let r = std::panic::catch_unwind(std::panic::AssertUnwindSafe(|| m.p.validate_tokens_raw(&seq)));
                match r {
                    Ok(Ok(k2)) => {
                        if k2 > seq.len() {
                            out.problems.push(("validate_returned_more_than_given".into(), json!({"n": k2})));
                        }
                    }
                    Ok(Err(_)) => {
                        if !legal {
                            failed = true;
                        }
                    }
                    Err(_) => {
                        m.panicked = true;
                        if legal && !was_failed {
                            out.problems.push(("panic_in_validate_tokens".into(), json!({"last_panic": LAST_PANIC.lock().unwrap().clone()})));
                        }
                        failed = true;
                    }
                }
            }
            7 => {
                let k = rng.below(hist_len + 2);
                let r = std::panic::catch_unwind(std::panic::AssertUnwindSafe(|| m.p.rollback(k)));
                match r {
                    Ok(Ok(())) => {
                        if k <= hist_len {
                            hist_len -= k;
                            hist.truncate(hist_len);
                        }
                    }
                    Ok(Err(_)) => {}
                    Err(_) => {
                        m.panicked = true;
                        if k <= hist_len && !was_failed {
                            out.problems.push(("panic_in_rollback".into(), json!({"k": k, "last_panic": LAST_PANIC.lock().unwrap().clone()})));
                        }
                        failed = true;
                    }
                }
            }
            8 => {
                let r = std::panic::catch_unwind(std::panic::AssertUnwindSafe(|| m.p.compute_ff_tokens()));
                if r.is_err() {
                    m.panicked = true;
                    if !was_failed {
                        out.problems.push(("panic_in_compute_ff_tokens".into(), json!({"last_panic": LAST_PANIC.lock().unwrap().clone()})));
                    }
                    failed = true;
                }
            }
            _ => {
                let _ = m.accepting();
            }
        }
        let _ = before;
        if m.panicked {
            break;
        }
        if failed && m.stop_reason() == StopReason::NotStopped && !m.panicked {
            // a failure that left the engine un-stopped is only acceptable for validate/rollback argument errors
            failed = false;
        }
    }
    out
}

pub fn run(ctx: &mut Ctx) {
    // resource limits for the whole worker
    unsafe {
        let lim = libc::rlimit { rlim_cur: 8 << 30, rlim_max: 8 << 30 };
        libc::setrlimit(libc::RLIMIT_AS, &lim);
    }
    let journal_path = ctx.arg("--journal");
    let mut journal = journal_path.as_ref().map(|p| std::fs::OpenOptions::new().create(true).append(true).open(p).unwrap());
    let skip: Vec<u64> = ctx.arg("--skip").map(|s| s.split(',').filter_map(|x| x.parse().ok()).collect()).unwrap_or_default();
    let start_after: Option<u64> = ctx.arg("--start-after").and_then(|x| x.parse().ok());
    let n_cases = ctx.pick(3000, 80000);
    for idx in 0..n_cases {
        if !ctx.mine(idx) || skip.contains(&idx) {
            continue;
        }
        if let Some(s) = start_after {
            if idx <= s {
                continue;
            }
        }
        if ctx.out_of_time() {
            break;
        }
        let mut rng = ctx.case_rng(idx);
        THOROUGH.store(ctx.thorough, std::sync::atomic::Ordering::Relaxed);
        let case = gen_case(&mut rng, idx);
        if let Some(j) = journal.as_mut() {
            let head: String = case.g.as_ref().map(|g| crate::report::bytes_dbg(&g.text.as_bytes()[..g.text.len().min(200)])).unwrap_or_default();
            let _ = writeln!(j, "B {idx} {} | {}", case.class, head);
            let _ = j.flush();
        }
        // per-case CPU budget: soft RLIMIT_CPU = used + 120 s
        unsafe {
            let mut ru: libc::rusage = std::mem::zeroed();
            libc::getrusage(libc::RUSAGE_SELF, &mut ru);
            let used = ru.ru_utime.tv_sec + ru.ru_stime.tv_sec;
            let budget: i64 = if ctx.thorough { 240 } else { 40 };
            let lim = libc::rlimit { rlim_cur: (used + budget) as u64, rlim_max: libc::RLIM_INFINITY };
            libc::setrlimit(libc::RLIMIT_CPU, &lim);
        }
        let seed = rng.next_u64();
        let c2 = case.clone();
        let t0 = std::time::Instant::now();
        let panics_before = panics_now();
        LAST_PANIC.lock().unwrap().clear();
        let h = std::thread::Builder::new().stack_size(2 << 20).spawn(move || run_one(&c2, seed)).unwrap();
        let res = h.join();
        // lift the per-case CPU limit again: harness work between cases must not be charged to it
        unsafe {
            let lim = libc::rlimit { rlim_cur: libc::RLIM_INFINITY, rlim_max: libc::RLIM_INFINITY };
            libc::setrlimit(libc::RLIMIT_CPU, &lim);
        }
        let ms = t0.elapsed().as_millis() as u64;
        ctx.rep.inc("cases");
        ctx.rep.inc(&format!("class.{}", case.class));
        ctx.rep.max("max.case_ms", ms);
        ctx.rep.max(&format!("max_ms.{}", case.class), ms);
        if ms > 20_000 {
            ctx.rep.inc("cases_over_20s");
            ctx.rep.note(&format!("slow case {idx} ({}): {ms} ms", case.class));
        }
        let tags = vec![case.class.clone(), if case.tight { "tight_limits".into() } else { "default_limits".into() }];
        let text_head: String = case.g.as_ref().map(|g| g.text.chars().take(300).collect()).unwrap_or_default();
        match res {
            Ok(o) => {
                ctx.rep.add("ops_run", o.ops_run as u64);
                if o.built {
                    ctx.rep.inc("engines_built");
                    ctx.rep.list("usable", idx);
                    ctx.rep.nontrivial(fnv(text_head.as_bytes()) ^ idx);
                } else {
                    ctx.rep.inc("inputs_rejected_with_error");
                }
                let lp = LAST_PANIC.lock().unwrap().clone();
                if panics_now() > panics_before && lp.contains("overflow") {
                    // arithmetic overflow observed (only the chk variant panics on overflow)
                    ctx.rep.list("overflow_panic", idx);
                    ctx.rep.note(&format!("overflow panic in case {idx} ({}): {}", case.class, lp.chars().take(160).collect::<String>()));
                }
                for (kind, detail) in o.problems {
                    let d = json!({"class": case.class, "tight_limits": case.tight, "input_head": text_head, "slices": case.slices, "oracle": detail});
                    let rp = ctx.replay(idx);
                    ctx.rep.violation(&kind, &tags, d, rp);
                }
            }
            Err(_) => {
                let d = json!({"class": case.class, "input_head": text_head, "last_panic": LAST_PANIC.lock().unwrap().clone()});
                let rp = ctx.replay(idx);
                ctx.rep.violation("case_thread_panicked_outside_monitored_calls", &tags, d, rp);
            }
        }
        if let Some(j) = journal.as_mut() {
            let _ = writeln!(j, "E {idx}");
            let _ = j.flush();
        }
        if idx % 300 == 0 {
            ctx.rep.sample(json!({"class": case.class, "tight_limits": case.tight, "input_head": text_head.chars().take(160).collect::<String>()}));
        }
    }
}
