//! Random JSON schemas over the documented keyword set, generated together with a
//! constructive instance generator.

use crate::engine::GCase;
use crate::rng::Rng;
use serde_json::{json, Map, Value};

pub const KEYS: &[&str] = &["a", "ab", "name", "x_1", "id", "k\"q", "\u{e9}", "val", "b", "items"];
/// long names that share long prefixes (literal caches / display-name truncation) or differ only at the end
pub const LONG_KEYS: &[&str] = &[
    "additional_information_1",
    "additional_information_2",
    "additional_information_10",
    "customer_contact_email_primary",
    "customer_contact_email_secondary",
    "aaaaaaaaaaaaaaaaaaaaaaaaaaaaaaaa",
    "aaaaaaaaaaaaaaaaaaaaaaaaaaaaaaab",
    "aaaaaaaaaaaaaaaaaaaaaaaaaaaaaaa",
    "\u{43a}\u{43b}\u{44e}\u{447}_\u{437}\u{43d}\u{430}\u{447}\u{435}\u{43d}\u{438}\u{435}_\u{43e}\u{434}\u{438}\u{43d}",
    "\u{43a}\u{43b}\u{44e}\u{447}_\u{437}\u{43d}\u{430}\u{447}\u{435}\u{43d}\u{438}\u{435}_\u{434}\u{432}\u{430}",
];
const WORDS: &[&str] = &["red", "redder", "green", "", "a b", "q\"uote", "line\nbreak", "\u{e9}t\u{e9}", "\u{1f422}", "back\\slash", "0", "true"];

#[derive(Clone)]
pub struct JsonGen {
    /// restrict to the C07 "fully supported" subset
    pub subset: bool,
    pub max_depth: u32,
    pub n_defs: usize,
}

impl JsonGen {
    pub fn gen_top(&self, rng: &mut Rng) -> Value {
        let many = rng.chance(1, 3);
        let n_defs = if rng.chance(1, 3) { 1 + rng.below(if many { 4 } else { 2 }) } else { 0 };
        let g = JsonGen { n_defs, ..self.clone() };
        let mut root = g.gen(rng, self.max_depth);
        if n_defs > 0 {
            let mut defs = Map::new();
            for i in 0..n_defs {
                // definitions may be recursive through optional properties / array items
                defs.insert(format!("d{i}"), g.gen_def(rng, i));
            }
            if !root.is_object() {
                root = json!({"anyOf": [root]});
            }
            root.as_object_mut().unwrap().insert("$defs".into(), Value::Object(defs));
        }
        if !self.subset && rng.chance(1, 4) && root.is_object() {
            let xg = match rng.below(5) {
                0 => json!({"whitespace_flexible": false}),
                1 => json!({"whitespace_flexible": false, "item_separator": ", ", "key_separator": ": "}),
                2 => json!({"whitespace_pattern": "[ \\n]{0,2}"}),
                3 => json!({"item_separator": "[ \\n]{0,2},[ \\n]{0,2}", "key_separator": "[ ]{0,2}:[ ]{0,2}", "whitespace_flexible": false}),
                _ => json!({"json_allowed_escapes": "nrt\\\""}),
            };
            root.as_object_mut().unwrap().insert("x-guidance".into(), xg);
        }
        root
    }

    fn gen_def(&self, rng: &mut Rng, i: usize) -> Value {
        // a definition that is only a reference to a LATER definition (d0 -> d1 -> ...): an alias chain, acyclic by
        // construction (an unguarded cycle is undefined in JSON Schema and is never generated)
        if i + 1 < self.n_defs && rng.chance(1, 2) {
            let j = i + 1 + rng.below(self.n_defs - i - 1);
            return json!({"$ref": format!("#/$defs/d{j}")});
        }
        // object with a required scalar and an optional recursive member => finite instances exist
        match rng.below(3) {
            0 => json!({"type": "object", "properties": {"v": self.gen_scalar(rng), "next": {"$ref": format!("#/$defs/d{i}")}}, "required": ["v"], "additionalProperties": false}),
            1 => json!({"type": "object", "properties": {"v": self.gen_scalar(rng), "kids": {"type": "array", "items": {"$ref": format!("#/$defs/d{i}")}, "maxItems": 2}}, "required": ["v"], "additionalProperties": false}),
            // no reference at the top of a definition body: `d0: {$ref: d0}` (directly or through anyOf) is an
            // unguarded cycle, which JSON Schema leaves undefined and which has no finite derivation
            _ => JsonGen { n_defs: 0, ..self.clone() }.gen(rng, 1),
        }
    }

    fn gen_scalar(&self, rng: &mut Rng) -> Value {
        match rng.below(5) {
            0 => self.gen_string(rng),
            1 => self.gen_integer(rng),
            2 => self.gen_number(rng),
            3 => json!({"type": "boolean"}),
            _ => json!({"type": "null"}),
        }
    }

    pub fn gen(&self, rng: &mut Rng, depth: u32) -> Value {
        if depth == 0 {
            return self.gen_leaf(rng);
        }
        match rng.below(if self.subset { 12 } else { 16 }) {
            0..=2 => self.gen_leaf(rng),
            3..=5 => self.gen_object(rng, depth),
            6..=7 => self.gen_array(rng, depth),
            8 => {
                if rng.chance(1, 4) {
                    return self.gen_typed_anyof(rng, depth);
                }
                let n = 2 + rng.below(2);
                json!({"anyOf": (0..n).map(|_| self.gen(rng, depth.saturating_sub(1))).collect::<Vec<_>>()})
            }
            9 => {
                if self.n_defs > 0 {
                    let r = format!("#/$defs/d{}", rng.below(self.n_defs));
                    if rng.chance(1, 3) {
                        // keywords next to $ref => intersection with the target (either keyword order; keywords for
                        // other types than the target's are no-ops)
                        let sib = self.bound_fragment(rng);
                        let mut m = Map::new();
                        let first = rng.chance(1, 2);
                        if first {
                            m.insert("$ref".into(), json!(r));
                        }
                        for (k, v) in sib.as_object().unwrap() {
                            m.insert(k.clone(), v.clone());
                        }
                        if !first {
                            m.insert("$ref".into(), json!(r));
                        }
                        Value::Object(m)
                    } else {
                        json!({"$ref": r})
                    }
                } else {
                    self.gen_leaf(rng)
                }
            }
            10 => self.gen_enum(rng),
            11 => json!({"const": self.gen_const(rng, 2)}),
            12 => {
                // oneOf over disjoint types
                let mut kinds = vec![self.gen_string(rng), self.gen_integer(rng), json!({"type": "boolean"}), self.gen_array(rng, depth.saturating_sub(1)), json!({"type": "null"})];
                rng.shuffle(&mut kinds);
                kinds.truncate(2 + rng.below(2));
                json!({"oneOf": kinds})
            }
            13 => self.gen_allof(rng, depth),
            14 => {
                let mut ts = vec!["string", "integer", "number", "boolean", "null", "array", "object"];
                rng.shuffle(&mut ts);
                ts.truncate(1 + rng.below(3));
                let mut o = json!({"type": ts});
                if rng.chance(1, 2) {
                    o["minLength"] = json!(rng.below(3));
                    o["maxLength"] = json!(3 + rng.below(4));
                }
                if rng.chance(1, 2) {
                    o["minimum"] = json!(rng.range(-5, 5));
                }
                o
            }
            _ => self.gen_sibling(rng, depth),
        }
    }

    fn gen_leaf(&self, rng: &mut Rng) -> Value {
        match rng.below(9) {
            0..=2 => self.gen_string(rng),
            3..=4 => self.gen_integer(rng),
            5 => self.gen_number(rng),
            6 => json!({"type": "boolean"}),
            7 => self.gen_enum(rng),
            _ => {
                if rng.chance(1, 2) {
                    json!({"type": "null"})
                } else {
                    json!({"const": self.gen_const(rng, 1)})
                }
            }
        }
    }

    pub fn gen_string(&self, rng: &mut Rng) -> Value {
        let mut o = json!({"type": "string"});
        let edge = [0u64, 1, 2, 3, 9, 10, 11, 29, 30, 31];
        match rng.below(if self.subset { 3 } else { 6 }) {
            0 => {}
            1 => {
                o["maxLength"] = json!(*rng.pick(&edge));
            }
            2 => {
                let a = *rng.pick(&edge[..6]);
                o["minLength"] = json!(a);
                if rng.chance(2, 3) {
                    o["maxLength"] = json!(a + rng.below(4) as u64);
                }
            }
            3 => {
                let pats = ["^[a-z]+$", "^[0-9]{2,4}$", "^(foo|bar)-[A-Z]$", "[0-9]", "^x.*y$", "^\\w+@\\w+$", "a{2}"];
                o["pattern"] = json!(*rng.pick(&pats));
                if rng.chance(1, 3) {
                    o["maxLength"] = json!(3 + rng.below(8));
                }
            }
            _ => {
                let fm = ["date-time", "time", "date", "duration", "email", "hostname", "ipv4", "ipv6", "uuid", "uri"];
                o["format"] = json!(*rng.pick(&fm));
            }
        }
        o
    }

    pub fn gen_integer(&self, rng: &mut Rng) -> Value {
        let mut o = json!({"type": "integer"});
        if rng.chance(2, 3) {
            let a = rng.range(-120, 120);
            let b = a + rng.range(0, 150);
            match rng.below(4) {
                0 => {
                    o["minimum"] = json!(a);
                }
                1 => {
                    o["maximum"] = json!(b);
                }
                2 => {
                    o["minimum"] = json!(a);
                    o["maximum"] = json!(b);
                }
                _ => {
                    o["exclusiveMinimum"] = json!(a);
                    o["exclusiveMaximum"] = json!(b + 2);
                }
            }
        }
        // inclusive and exclusive keyword on the same side (ties included)
        if rng.chance(1, 6) {
            if let Some(b) = o.get("maximum").and_then(|v| v.as_i64()) {
                o["exclusiveMaximum"] = json!(b + rng.range(-1, 1));
            } else if let Some(a) = o.get("minimum").and_then(|v| v.as_i64()) {
                o["exclusiveMinimum"] = json!(a + rng.range(-1, 1));
            }
        }
        if rng.chance(1, 4) {
            o["multipleOf"] = json!(*rng.pick(&[2, 3, 5, 7, 10]));
        }
        o
    }

    pub fn gen_number(&self, rng: &mut Rng) -> Value {
        let mut o = json!({"type": "number"});
        if rng.chance(2, 3) {
            let a = rng.range(-1200, 1200) as f64 / *rng.pick(&[1.0, 10.0, 100.0]);
            let b = a + rng.range(0, 1500) as f64 / *rng.pick(&[1.0, 10.0, 100.0]);
            let b = (b * 100.0).round() / 100.0;
            match rng.below(3) {
                0 => {
                    o["minimum"] = json!(a);
                }
                1 => {
                    o["minimum"] = json!(a);
                    o["maximum"] = json!(b);
                }
                _ => {
                    o["exclusiveMinimum"] = json!(a);
                    // (rounded again: 1.47 + 1.0 is 2.4699999999999998 in f64, a 17-digit bound that belongs to C08's own class)
                    o["maximum"] = json!(((b + 1.0) * 100.0).round() / 100.0);
                }
            }
        }
        if !self.subset && rng.chance(1, 5) {
            o["multipleOf"] = json!(*rng.pick(&[0.5, 0.25, 0.1, 0.01, 2.5, 3.0]));
        }
        o
    }

    fn gen_const(&self, rng: &mut Rng, depth: u32) -> Value {
        match rng.below(if depth == 0 { 5 } else { 7 }) {
            0 => json!(*rng.pick(WORDS)),
            1 => json!(rng.range(-1000, 1000)),
            2 => json!(rng.range(-1000, 1000) as f64 / 8.0),
            3 => json!(rng.chance(1, 2)),
            4 => Value::Null,
            5 => Value::Array((0..rng.below(3)).map(|_| self.gen_const(rng, depth.saturating_sub(1))).collect()),
            _ => {
                let mut m = Map::new();
                let pool = if rng.chance(1, 6) { LONG_KEYS } else { KEYS };
                for _ in 0..rng.below(3) {
                    m.insert(rng.pick(pool).to_string(), self.gen_const(rng, depth.saturating_sub(1)));
                }
                Value::Object(m)
            }
        }
    }

    fn gen_enum(&self, rng: &mut Rng) -> Value {
        if rng.chance(1, 5) {
            // string enum / const intersected with length bounds (counted in characters, not bytes)
            let pool = ["h\u{e9}llo", "hello", "abc", "\u{b0}C", "Zo\u{eb}", "Jos\u{e9}", "Ann", "\u{1f422}\u{1f422}", "\u{65e5}\u{672c}\u{8a9e}", "", "a"];
            let n = 1 + rng.below(4);
            let mut vals: Vec<&str> = vec![];
            for _ in 0..n {
                let w = *rng.pick(&pool);
                if !vals.contains(&w) {
                    vals.push(w);
                }
            }
            let k = rng.pick(&vals).chars().count();
            let mut o = if vals.len() == 1 && rng.chance(1, 2) { json!({"type": "string", "const": vals[0]}) } else { json!({"type": "string", "enum": vals}) };
            match rng.below(3) {
                0 => {
                    o["maxLength"] = json!(k);
                }
                1 => {
                    o["minLength"] = json!(k);
                }
                _ => {
                    o["minLength"] = json!(k.saturating_sub(1));
                    o["maxLength"] = json!(k + rng.below(2));
                }
            }
            return o;
        }
        let n = 1 + rng.below(5);
        let mut vals: Vec<Value> = vec![];
        for _ in 0..n {
            let c = self.gen_const(rng, 1);
            if !vals.contains(&c) {
                vals.push(c);
            }
        }
        json!({"enum": vals})
    }

    fn gen_array(&self, rng: &mut Rng, depth: u32) -> Value {
        let mut o = json!({"type": "array"});
        let np = if rng.chance(1, 3) { 1 + rng.below(2) } else { 0 };
        if np > 0 {
            o["prefixItems"] = Value::Array((0..np).map(|_| self.gen(rng, depth.saturating_sub(1))).collect());
        }
        match rng.below(4) {
            0 => {}
            1 if np > 0 => {
                o["items"] = json!(false);
            }
            _ => {
                o["items"] = self.gen(rng, depth.saturating_sub(1));
            }
        }
        if rng.chance(1, 2) {
            let a = rng.below(4);
            o["minItems"] = json!(a);
            if rng.chance(2, 3) {
                o["maxItems"] = json!(a + rng.below(4));
            }
        } else if rng.chance(1, 2) {
            o["maxItems"] = json!(rng.below(5));
        }
        o
    }

    pub fn gen_object(&self, rng: &mut Rng, depth: u32) -> Value {
        let long = rng.chance(1, 6);
        let mut keys: Vec<&str> = if long { LONG_KEYS.to_vec() } else { KEYS.to_vec() };
        rng.shuffle(&mut keys);
        let n = if long { 2 + rng.below(3) } else { rng.below(4) };
        let mut props = Map::new();
        let mut req = vec![];
        for k in &keys[..n] {
            props.insert(k.to_string(), self.gen(rng, depth.saturating_sub(1)));
            if rng.chance(1, 2) {
                req.push(json!(k));
            }
        }
        let mut o = json!({"type": "object"});
        if n > 0 || rng.chance(1, 2) {
            o["properties"] = Value::Object(props);
        }
        if !req.is_empty() {
            rng.shuffle(&mut req);
            o["required"] = Value::Array(req.clone());
        }
        match rng.below(5) {
            0 => {}
            1 | 2 => {
                o["additionalProperties"] = json!(false);
            }
            3 => {
                o["additionalProperties"] = self.gen_leaf(rng);
            }
            _ => {
                o["additionalProperties"] = json!(true);
            }
        }
        if !self.subset && rng.chance(1, 8) {
            o["patternProperties"] = json!({"^z_": self.gen_leaf(rng)});
        }
        if !self.subset && !long && rng.chance(1, 6) {
            // patterns that match some of the declared names (a declared property then has to satisfy both
            // schemas), sometimes with a declared optional property that is forbidden outright
            let pats = ["^a", "^[ab]", "b$", "^(id|val)$", "_", "^.{1,2}$", "a"];
            let mut pp = Map::new();
            for _ in 0..1 + rng.below(2) {
                pp.insert(rng.pick(&pats).to_string(), self.gen_scalar(rng));
            }
            o["patternProperties"] = Value::Object(pp);
            if let Some(pr) = o.get_mut("properties").and_then(|p| p.as_object_mut()) {
                let names: Vec<String> = pr.keys().cloned().collect();
                for k in names {
                    if !req.contains(&json!(k)) && rng.chance(1, 3) {
                        pr.insert(k, json!(false));
                    } else if rng.chance(1, 3) {
                        pr.insert(k, self.gen_scalar(rng));
                    }
                }
            }
        }
        if !self.subset && req.len() == n && rng.chance(1, 4) && o.get("additionalProperties") != Some(&json!(false)) {
            let a = n + rng.below(2);
            o["minProperties"] = json!(a);
            o["maxProperties"] = json!(a + rng.below(3));
        }
        o
    }

    fn gen_allof(&self, rng: &mut Rng, depth: u32) -> Value {
        match rng.below(3) {
            0 => json!({"allOf": [
                {"type": "object", "properties": {"a": self.gen(rng, depth.saturating_sub(1))}, "required": ["a"]},
                {"type": "object", "properties": {"b": self.gen_leaf(rng)}, "required": if rng.chance(1,2) { json!(["b"]) } else { json!([]) }}
            ]}),
            1 => json!({"allOf": [
                {"type": "integer", "minimum": rng.range(-20, 20)},
                {"maximum": rng.range(20, 60), "multipleOf": *rng.pick(&[1, 2, 3])}
            ]}),
            _ => json!({"allOf": [
                {"type": "string", "minLength": rng.below(3)},
                {"maxLength": 3 + rng.below(5), "pattern": *rng.pick(&["^[a-c]*$", "^[a-z0-9]+$", "b"])}
            ]}),
        }
    }

    /// bounds without a type: `{"maxItems": 2}`, `{"minLength": 1, "maxLength": 3}`, `{"minimum": 0}` ...
    fn bound_fragment(&self, rng: &mut Rng) -> Value {
        match rng.below(6) {
            0 => json!({"maxItems": 1 + rng.below(4)}),
            1 => json!({"minItems": rng.below(3)}),
            2 => json!({"minItems": rng.below(2), "maxItems": 2 + rng.below(3)}),
            3 => json!({"maxLength": 1 + rng.below(6)}),
            4 => json!({"minimum": rng.range(-30, 30)}),
            _ => json!({"maximum": rng.range(-30, 90)}),
        }
    }

    /// a typed schema with an anyOf of bound fragments next to it (tuple / string / integer), or a const / enum
    /// next to type keywords: all of them compile through schema intersection
    fn gen_typed_anyof(&self, rng: &mut Rng, depth: u32) -> Value {
        match rng.below(4) {
            0 => {
                // tuple with a tail of another type than its head, lengths split by the anyOf
                let heads = [json!({"type": "string", "maxLength": 3}), json!({"type": "boolean"}), json!({"type": "integer", "minimum": 0, "maximum": 9}), json!({"type": "null"})];
                let np = 1 + rng.below(3);
                let prefix: Vec<Value> = (0..np).map(|_| rng.pick(&heads).clone()).collect();
                let tail = match rng.below(3) {
                    0 => json!({"type": "integer", "minimum": 10, "maximum": 99}),
                    1 => json!({"type": "string", "minLength": 4, "maxLength": 5}),
                    _ => self.gen(rng, depth.saturating_sub(1)),
                };
                let mut m = Map::new();
                let order = rng.below(3);
                let any = json!([{"maxItems": rng.below(np + 1)}, {"minItems": np + rng.below(2), "maxItems": np + 1 + rng.below(3)}]);
                if order == 0 {
                    m.insert("anyOf".into(), any.clone());
                }
                m.insert("type".into(), json!("array"));
                m.insert("prefixItems".into(), Value::Array(prefix));
                if order == 1 {
                    m.insert("anyOf".into(), any.clone());
                }
                m.insert("items".into(), tail);
                if order == 2 {
                    m.insert("anyOf".into(), any);
                }
                Value::Object(m)
            }
            1 => {
                let a = rng.range(-40, 40);
                json!({"type": "integer", "anyOf": [{"maximum": a}, {"minimum": a + rng.range(1, 30), "maximum": a + 60}]})
            }
            2 => {
                let k = 1 + rng.below(3);
                json!({"type": "string", "anyOf": [{"maxLength": k}, {"minLength": k + 2 + rng.below(2), "maxLength": k + 5}]})
            }
            _ => {
                // const / enum of arrays next to type / items / prefixItems (either order)
                let arr = |rng: &mut Rng| Value::Array((0..rng.below(4)).map(|_| json!(rng.range(0, 12))).collect());
                let c = arr(rng);
                let mut m = Map::new();
                let first = rng.chance(1, 2);
                let lit = if rng.chance(1, 2) { ("const", c) } else { ("enum", json!([c, arr(rng), [true, 1]])) };
                if first {
                    m.insert(lit.0.into(), lit.1.clone());
                }
                m.insert("type".into(), json!("array"));
                match rng.below(3) {
                    0 => {}
                    1 => {
                        m.insert("items".into(), json!({"type": "integer"}));
                    }
                    _ => {
                        m.insert("prefixItems".into(), json!([{"type": "integer", "maximum": 11}]));
                        m.insert("items".into(), json!({"type": "integer", "minimum": 1}));
                    }
                }
                if !first {
                    m.insert(lit.0.into(), lit.1);
                }
                Value::Object(m)
            }
        }
    }

    fn gen_sibling(&self, rng: &mut Rng, depth: u32) -> Value {
        // keywords next to anyOf => intersection
        let mut o = json!({"anyOf": [self.gen_string(rng), self.gen_integer(rng), self.gen_array(rng, depth.saturating_sub(1))]});
        match rng.below(3) {
            0 => {
                o["type"] = json!(["string", "integer"]);
            }
            1 => {
                o["maxLength"] = json!(4);
                o["minimum"] = json!(0);
            }
            _ => {
                o["maxItems"] = json!(2);
            }
        }
        o
    }
}

pub fn random_schema_case(rng: &mut Rng, idx: u64) -> GCase {
    let g = JsonGen { subset: rng.chance(1, 3), max_depth: 1 + rng.below(3) as u32, n_defs: 0 };
    let s = g.gen_top(rng);
    let mut c = GCase::json(&format!("genjs{idx}"), &serde_json::to_string(&s).unwrap()).tag("gen_json");
    if g.subset {
        c = c.tag("json_subset");
    }
    c
}

// ------------------------------------------------------------------ instance generation

pub struct InstGen<'a> {
    pub root: &'a Value,
    pub budget: usize,
}

fn rand_string(rng: &mut Rng, min: usize, max: usize) -> String {
    let chars = ['a', 'b', 'z', '0', ' ', '\u{e9}', '\u{1f422}', '"', '\\', '\n', 'Q', '-', '\t', '/', '\u{7f}', '\u{1}'];
    let n = min + rng.below(max.saturating_sub(min) + 1);
    (0..n).map(|_| if rng.chance(2, 3) { chars[rng.below(5)] } else { *rng.pick(&chars) }).collect()
}

impl<'a> InstGen<'a> {
    fn valid_for(&self, s: &Value, v: &Value) -> bool {
        let text = serde_json::to_string(v).unwrap_or_default();
        match crate::ref_json::JParser::parse(text.as_bytes()) {
            Ok(j) => matches!(crate::ref_json::Validator::new(self.root).validate(s, &j), crate::ref_json::Verdict::Valid),
            Err(_) => false,
        }
    }

    /// constructive instance for the subset schemas; None when the generator does not know how
    pub fn gen(&mut self, rng: &mut Rng, s: &Value, depth: u32) -> Option<Value> {
        if self.budget == 0 {
            return None;
        }
        self.budget -= 1;
        let o = match s {
            Value::Bool(true) => return Some(json!(rng.range(0, 9))),
            Value::Bool(false) => return None,
            Value::Object(o) => o,
            _ => return None,
        };
        let n_meta = o.contains_key("$defs") as usize + o.contains_key("x-guidance") as usize;
        if let Some(r) = o.get("$ref").and_then(|r| r.as_str()) {
            let t = self.root.pointer(r.strip_prefix('#')?)?;
            if o.len() > 1 + n_meta {
                // sibling keywords: candidates from the target, kept when the whole schema accepts them
                for _ in 0..6 {
                    if let Some(v) = self.gen(rng, t, depth + 1) {
                        if self.valid_for(s, &v) {
                            return Some(v);
                        }
                    }
                }
                return None;
            }
            return self.gen(rng, t, depth + 1);
        }
        if let Some(c) = o.get("const") {
            if o.len() > 1 + n_meta && !self.valid_for(s, c) {
                return None;
            }
            return Some(c.clone());
        }
        if let Some(e) = o.get("enum").and_then(|e| e.as_array()) {
            if e.is_empty() {
                return None;
            }
            if o.len() > 1 + n_meta {
                let ok: Vec<&Value> = e.iter().filter(|v| self.valid_for(s, v)).collect();
                if ok.is_empty() {
                    return None;
                }
                return Some((*rng.pick(&ok)).clone());
            }
            return Some(rng.pick(e).clone());
        }
        if let Some(a) = o.get("anyOf").and_then(|e| e.as_array()) {
            if o.len() > 1 + n_meta {
                // sibling keywords: candidates from the schema without its anyOf, kept when the whole schema accepts
                // them (only for typed scalars / arrays: key order of intersected objects is not defined by the property)
                let ty = o.get("type").and_then(|t| t.as_str()).unwrap_or("");
                if !matches!(ty, "array" | "integer" | "string") {
                    return None;
                }
                let mut base = o.clone();
                base.remove("anyOf");
                let base = Value::Object(base);
                for _ in 0..8 {
                    if let Some(v) = self.gen(rng, &base, depth + 1) {
                        if self.valid_for(s, &v) {
                            return Some(v);
                        }
                    }
                }
                return None;
            }
            for _ in 0..4 {
                let br = rng.pick(a).clone();
                if let Some(v) = self.gen(rng, &br, depth + 1) {
                    // the instance has to be valid for the branch it was built from: an instance that only
                    // validates through ANOTHER branch carries its keys in the wrong branch's order
                    let text = serde_json::to_string(&v).unwrap_or_default();
                    let ok = match crate::ref_json::JParser::parse(text.as_bytes()) {
                        Ok(j) => matches!(crate::ref_json::Validator::new(self.root).validate(&br, &j), crate::ref_json::Verdict::Valid),
                        Err(_) => false,
                    };
                    if ok {
                        return Some(v);
                    }
                }
            }
            return None;
        }
        if o.contains_key("allOf") || o.contains_key("oneOf") || o.contains_key("pattern") || o.contains_key("format") || o.contains_key("patternProperties") {
            return None;
        }
        let ty = match o.get("type") {
            Some(Value::String(t)) => t.clone(),
            Some(Value::Array(a)) => rng.pick(a).as_str()?.to_string(),
            None => {
                if o.contains_key("properties") || o.contains_key("required") || o.contains_key("additionalProperties") {
                    "object".into()
                } else if o.contains_key("items") || o.contains_key("prefixItems") {
                    "array".into()
                } else {
                    (*rng.pick(&["string", "integer", "boolean", "null", "number"])).to_string()
                }
            }
            _ => return None,
        };
        match ty.as_str() {
            "null" => Some(Value::Null),
            "boolean" => Some(json!(rng.chance(1, 2))),
            "string" => {
                let min = o.get("minLength").and_then(|v| v.as_u64()).unwrap_or(0) as usize;
                let max = o.get("maxLength").and_then(|v| v.as_u64()).map(|v| v as usize).unwrap_or(min + 6);
                if max < min {
                    return None;
                }
                Some(json!(rand_string(rng, min, max)))
            }
            "integer" => {
                let mut lo = o.get("minimum").and_then(|v| v.as_f64()).map(|f| f.ceil() as i64);
                let mut hi = o.get("maximum").and_then(|v| v.as_f64()).map(|f| f.floor() as i64);
                if let Some(x) = o.get("exclusiveMinimum").and_then(|v| v.as_f64()) {
                    let c = x.floor() as i64 + 1;
                    lo = Some(lo.map_or(c, |l| l.max(c)));
                }
                if let Some(x) = o.get("exclusiveMaximum").and_then(|v| v.as_f64()) {
                    let c = x.ceil() as i64 - 1;
                    hi = Some(hi.map_or(c, |h| h.min(c)));
                }
                let m = o.get("multipleOf").and_then(|v| v.as_i64()).unwrap_or(1).max(1);
                let (lo, hi) = match (lo, hi) {
                    (Some(l), Some(h)) => (l, h),
                    (Some(l), None) => (l, l + 50 * m + if rng.chance(1, 5) { 1_000_000_007 } else { 0 }),
                    (None, Some(h)) => (h - 50 * m - if rng.chance(1, 5) { 1_000_000_007 } else { 0 }, h),
                    (None, None) => (-60 * m, 60 * m),
                };
                if lo > hi {
                    return None;
                }
                let klo = lo.div_euclid(m) + if lo.rem_euclid(m) != 0 { 1 } else { 0 };
                let khi = hi.div_euclid(m);
                if klo > khi {
                    return None;
                }
                // prefer edges
                let k = match rng.below(4) {
                    0 => klo,
                    1 => khi,
                    _ => rng.range(klo, khi),
                };
                Some(json!(k * m))
            }
            "number" => {
                if o.contains_key("multipleOf") {
                    return None;
                }
                // work in hundredths to stay exactly representable as short decimals
                let lo = o.get("minimum").and_then(|v| v.as_f64());
                let hi = o.get("maximum").and_then(|v| v.as_f64());
                let xlo = o.get("exclusiveMinimum").and_then(|v| v.as_f64());
                let xhi = o.get("exclusiveMaximum").and_then(|v| v.as_f64());
                let mut l = lo.map(|f| (f * 100.0).round() as i64);
                let mut h = hi.map(|f| (f * 100.0).round() as i64);
                if let Some(x) = xlo {
                    let c = (x * 100.0).round() as i64 + 1;
                    l = Some(l.map_or(c, |v| v.max(c)));
                }
                if let Some(x) = xhi {
                    let c = (x * 100.0).round() as i64 - 1;
                    h = Some(h.map_or(c, |v| v.min(c)));
                }
                let (l, h) = match (l, h) {
                    (Some(l), Some(h)) => (l, h),
                    (Some(l), None) => (l, l + 5000),
                    (None, Some(h)) => (h - 5000, h),
                    (None, None) => (-5000, 5000),
                };
                if l > h {
                    return None;
                }
                let k = match rng.below(4) {
                    0 => l,
                    1 => h,
                    _ => rng.range(l, h),
                };
                if k % 100 == 0 && rng.chance(1, 2) {
                    Some(json!(k / 100))
                } else {
                    let t = format!("{}{}.{:02}", if k < 0 { "-" } else { "" }, k.abs() / 100, k.abs() % 100);
                    serde_json::from_str(&t).ok()
                }
            }
            "array" => {
                let prefix = o.get("prefixItems").and_then(|v| v.as_array()).cloned().unwrap_or_default();
                let items = o.get("items");
                let min = o.get("minItems").and_then(|v| v.as_u64()).unwrap_or(0) as usize;
                let mut max = o.get("maxItems").and_then(|v| v.as_u64()).map(|v| v as usize).unwrap_or(min + 3);
                if items == Some(&json!(false)) {
                    max = max.min(prefix.len());
                }
                if depth > 6 {
                    max = max.min(min);
                }
                if max < min {
                    return None;
                }
                let n = min + rng.below(max - min + 1);
                let mut out = vec![];
                for i in 0..n {
                    let sch = if i < prefix.len() { prefix[i].clone() } else { items.cloned().unwrap_or(json!(true)) };
                    out.push(self.gen(rng, &sch, depth + 1)?);
                }
                Some(Value::Array(out))
            }
            "object" => {
                if o.contains_key("minProperties") || o.contains_key("maxProperties") {
                    return None;
                }
                let empty = Map::new();
                let props = o.get("properties").and_then(|v| v.as_object()).unwrap_or(&empty);
                let req: Vec<String> = o.get("required").and_then(|v| v.as_array()).map(|a| a.iter().filter_map(|x| x.as_str().map(|s| s.to_string())).collect()).unwrap_or_default();
                let addl = o.get("additionalProperties").cloned().unwrap_or(json!(true));
                let mut m = Map::new();
                for (k, ps) in props {
                    let must = req.contains(k);
                    if must || (rng.chance(1, 2) && depth < 6) {
                        match self.gen(rng, ps, depth + 1) {
                            Some(v) => {
                                m.insert(k.clone(), v);
                            }
                            None if must => return None,
                            None => {}
                        }
                    }
                }
                // required keys not in properties are governed by additionalProperties
                for k in &req {
                    if !props.contains_key(k) {
                        m.insert(k.clone(), self.gen(rng, &addl, depth + 1)?);
                    }
                }
                if addl != json!(false) && rng.chance(1, 3) && depth < 5 {
                    for k in ["zz", "extra key", "\u{e9}\u{e9}"].iter().take(1 + rng.below(2)) {
                        if !props.contains_key(*k) && !m.contains_key(*k) {
                            if let Some(v) = self.gen(rng, &addl, depth + 1) {
                                m.insert(k.to_string(), v);
                            }
                        }
                    }
                }
                Some(Value::Object(m))
            }
            _ => None,
        }
    }
}
