//! C17: the C API returns what the Rust API returns and stays inside caller buffers.
//! The llg_* functions are called directly from Rust; every step is mirrored on Rust-side
//! Constraint / Matcher objects; destination buffers carry canaries. The same binary is also
//! run under AddressSanitizer (variant `asan`) for reads outside the engine's own mask.

use crate::ctx::Ctx;
use crate::engine::*;
use crate::pool;
use crate::report::bytes_dbg;
use crate::rng::{fnv, Rng};
use crate::vocab::{self, Vocab};
use crate::walker;
use llguidance::ffi::*;
use llguidance::toktrie::SimpleVob;
use llguidance::{Constraint, Matcher};
use serde_json::json;
use std::ffi::CString;

const CANARY: u32 = 0xC0DE_CAFE;
const PAD: usize = 16;

struct Guarded {
    buf: Vec<u32>,
    words: usize,
}

impl Guarded {
    fn new(words: usize, fill: u32) -> Self {
        let mut buf = vec![CANARY; PAD + words + PAD];
        for w in &mut buf[PAD..PAD + words] {
            *w = fill;
        }
        Guarded { buf, words }
    }
    fn ptr(&mut self) -> *mut u32 {
        unsafe { self.buf.as_mut_ptr().add(PAD) }
    }
    fn data(&self) -> &[u32] {
        &self.buf[PAD..PAD + self.words]
    }
    fn canaries_ok(&self) -> bool {
        self.buf[..PAD].iter().all(|&w| w == CANARY) && self.buf[PAD + self.words..].iter().all(|&w| w == CANARY)
    }
}

fn make_vocab(rng: &mut Rng, n: usize) -> Vocab {
    let mut words: Vec<Vec<u8>> = vec![];
    for b in 0..=254u8 {
        if words.len() < n.saturating_sub(2) {
            words.push(vec![b]);
        }
    }
    let samples = vocab::generic_samples();
    let mut seen: std::collections::HashSet<Vec<u8>> = words.iter().cloned().collect();
    let mut guard = 0;
    while words.len() < n - 1 && guard < 100000 {
        guard += 1;
        let s = rng.pick(&samples);
        let len = 2 + rng.below(5);
        if s.len() <= len {
            continue;
        }
        let off = rng.below(s.len() - len);
        let w = s[off..off + len].to_vec();
        if seen.insert(w.clone()) {
            words.push(w);
        } else if guard > 20000 {
            // vocabulary larger than the distinct substrings: pad with numbered tokens
            words.push(format!("~{}~", words.len()).into_bytes());
        }
    }
    let mut eos = vec![0xFFu8];
    eos.extend_from_slice(b"<|end|>");
    words.push(eos);
    let e = (words.len() - 1) as u32;
    Vocab::from_words(&format!("Vffi{n}"), words, e, false)
}

struct CTok {
    ptr: *mut LlgTokenizer,
}

impl Drop for CTok {
    fn drop(&mut self) {
        unsafe { llg_free_tokenizer(self.ptr) }
    }
}

fn c_tokenizer(v: &Vocab) -> Option<CTok> {
    let lens: Vec<u32> = v.words.iter().map(|w| w.len() as u32).collect();
    let bytes: Vec<u8> = v.words.concat();
    let init = LlgTokenizerInit {
        vocab_size: v.n() as u32,
        tok_eos: v.eos,
        token_lens: lens.as_ptr(),
        token_bytes: bytes.as_ptr(),
        tokenizer_json: std::ptr::null(),
        tokenize_assumes_string: false,
        tokenize_fn: None,
        use_approximate_greedy_tokenize_fn: true,
        tokenize_user_data: std::ptr::null(),
        slices: std::ptr::null(),
    };
    let mut err = vec![0i8; 256];
    let p = unsafe { llg_new_tokenizer(&init, err.as_mut_ptr() as *mut _, err.len()) };
    if p.is_null() {
        None
    } else {
        Some(CTok { ptr: p })
    }
}

fn init_for(tok: &CTok, ff: bool) -> LlgConstraintInit {
    let mut init: LlgConstraintInit = unsafe { std::mem::zeroed() };
    llg_constraint_init_set_defaults(&mut init, tok.ptr);
    init.log_stderr_level = 0;
    init.ff_tokens_ok = ff;
    init.limits.verbose_errors = false;
    init
}

fn kind_str(g: &GCase) -> &'static str {
    match g.kind {
        GKind::Lark => "lark",
        GKind::Regex => "regex",
        GKind::Json => "json_schema",
    }
}

fn mask_words_of(m: &SimpleVob, n_words: usize) -> Vec<u32> {
    let mut w = m.as_slice().to_vec();
    w.resize(n_words.max(w.len()), 0);
    w.truncate(n_words);
    w
}

fn grammar_pick(rng: &mut Rng, idx: u64) -> GCase {
    loop {
        let g = if rng.chance(1, 2) {
            let i = rng.below(pool::n_corpus() as usize) as u64;
            pool::grammar(rng, i)
        } else {
            pool::grammar(rng, 1_000_000 + idx)
        };
        if !g.has_tag("special_token_ref") && !g.text.contains('\0') {
            return g;
        }
    }
}

fn run_case(ctx: &mut Ctx, idx: u64) {
    let mut rng = ctx.case_rng(idx);
    let sizes = [224usize, 255, 256, 257, 288, 511, 512, 513, 1001];
    let n = sizes[(idx as usize) % sizes.len()];
    let v = make_vocab(&mut rng, n);
    let Some(tok) = c_tokenizer(&v) else {
        let rp = ctx.replay(idx);
        ctx.rep.violation("llg_new_tokenizer_failed", &[], json!({"n_vocab": n}), rp);
        return;
    };
    let g = grammar_pick(&mut rng, idx);
    let Ok(f) = factory(&v, &FactoryOpts::default()) else { return };
    let n_words = n.div_ceil(32);
    let tags = g.tags.clone();
    macro_rules! viol {
        ($kind:expr, $detail:expr) => {{
            let d = json!({"grammar": g.text, "grammar_kind": kind_str(&g), "n_vocab": n, "oracle": $detail});
            let rp = ctx.replay(idx);
            ctx.rep.violation($kind, &tags, d, rp);
            return;
        }};
    }
    let ctext = CString::new(g.text.clone()).unwrap();
    let ckind = CString::new(kind_str(&g)).unwrap();
    let init = init_for(&tok, false);
    if idx % 2 == 0 {
        // ---------------- constraint API + llg_par_compute_mask
        let cc = llg_new_constraint_any(&init, ckind.as_ptr(), ctext.as_ptr());
        let cerr = !llg_get_error(unsafe { &*cc }).is_null();
        let rp = parser(&f, &g);
        if cerr != rp.is_err() {
            unsafe { llg_free_constraint(cc) };
            viol!("constraint_creation_result_differs", json!({"c_error": cerr, "rust_error": rp.is_err()}));
        }
        if cerr {
            unsafe { llg_free_constraint(cc) };
            ctx.rep.inc("compile_errors");
            return;
        }
        let mut rc = Constraint::new(rp.unwrap());
        ctx.rep.inc("cases");
        let mut hist: Vec<u32> = vec![];
        let steps = ctx.pick(12, 30);
        let mut result: Result<(), (String, serde_json::Value)> = Ok(());
        'outer: for step in 0..steps {
            // mask: alternate between the plain call and the parallel batch call
            let use_par = rng.chance(1, 2);
            let rm = rc.compute_mask().map(|r| (r.sample_mask.clone(), r.is_stop()));
            let (c_mask, c_stop): (Option<Vec<u32>>, bool);
            if use_par {
                // several buffer lengths for the same state: clone the C constraint per length
                let lens_bytes: Vec<usize> = {
                    let full = n_words * 4;
                    let mut l: Vec<usize> = (0..=(full + 32) / 4).map(|k| k * 4).collect();
                    rng.shuffle(&mut l);
                    l.truncate(ctx.pick(5, 12));
                    l.push(full);
                    l.push(full + 4);
                    l
                };
                let mut clones: Vec<*mut LlgConstraint> = vec![];
                let mut bufs: Vec<Guarded> = vec![];
                let mut st: Vec<LlgConstraintStep> = vec![];
                for &lb in &lens_bytes {
                    let cl = llg_clone_constraint(unsafe { &*cc });
                    clones.push(cl);
                    bufs.push(Guarded::new(lb / 4, 0xAAAA_AAAA));
                }
                for (i, &lb) in lens_bytes.iter().enumerate() {
                    st.push(LlgConstraintStep { constraint: clones[i], mask_dest: bufs[i].ptr(), mask_byte_len: lb });
                }
                unsafe { llg_par_compute_mask(st.as_ptr(), st.len(), std::ptr::null(), None) };
                ctx.rep.add("par_buffers_checked", st.len() as u64);
                let mut full_mask = None;
                for (i, &lb) in lens_bytes.iter().enumerate() {
                    let words = lb / 4;
                    let err = !llg_get_error(unsafe { &*clones[i] }).is_null();
                    if !bufs[i].canaries_ok() {
                        result = Err(("write_outside_caller_buffer".into(), json!({"buffer_bytes": lb, "history": hist})));
                    }
                    match &rm {
                        Ok((Some(m), stop)) if !err => {
                            let want = mask_words_of(m, n_words);
                            let got = bufs[i].data();
                            for w in 0..words {
                                let exp = if w < n_words { want[w] } else { 0 };
                                let mut exp = exp;
                                if *stop && (v.eos as usize) / 32 == w {
                                    exp |= 1 << (v.eos % 32);
                                }
                                if got[w] != exp {
                                    let kind = if w >= n_words { "buffer_tail_not_zero_filled" } else { "par_mask_differs_from_rust_mask" };
                                    result = Err((kind.into(), json!({"buffer_bytes": lb, "word": w, "got": got[w], "want": exp, "history": hist, "mask_words": n_words})));
                                    break;
                                }
                            }
                            // bits at or above vocab must be zero
                            for (w, &x) in got.iter().enumerate() {
                                for b in 0..32 {
                                    if x & (1 << b) != 0 && w * 32 + b >= n {
                                        result = Err(("bit_at_or_above_vocab_in_caller_buffer".into(), json!({"buffer_bytes": lb, "bit": w * 32 + b, "history": hist})));
                                    }
                                }
                            }
                            if words == n_words {
                                full_mask = Some(got.to_vec());
                            }
                        }
                        Ok((None, stop)) if !err => {
                            // stop result: buffer is zero except EOS
                            let got = bufs[i].data();
                            for (w, &x) in got.iter().enumerate() {
                                let exp = if *stop && (v.eos as usize) / 32 == w { 1u32 << (v.eos % 32) } else { 0 };
                                if x != exp {
                                    result = Err(("stop_mask_not_eos_only".into(), json!({"buffer_bytes": lb, "word": w, "got": x, "history": hist})));
                                }
                            }
                        }
                        Err(_) if err => {}
                        _ => {
                            result = Err(("par_error_status_differs".into(), json!({"c_error": err, "rust_error": rm.is_err(), "history": hist})));
                        }
                    }
                }
                for cl in clones {
                    unsafe { llg_free_constraint(cl) };
                }
                if result.is_err() {
                    break 'outer;
                }
                // keep the primary C constraint in step with the mirror
                let mut res: LlgMaskResult = unsafe { std::mem::zeroed() };
                let rc_code = llg_compute_mask(unsafe { &mut *cc }, &mut res);
                if (rc_code != 0) != rm.is_err() {
                    result = Err(("compute_mask_status_differs".into(), json!({"c_code": rc_code, "rust_error": rm.is_err(), "history": hist})));
                    break;
                }
                c_stop = res.is_stop;
                c_mask = if rc_code == 0 && !res.sample_mask.is_null() { Some(unsafe { std::slice::from_raw_parts(res.sample_mask, n_words) }.to_vec()) } else { None };
                if let (Some(a), Some(b)) = (&full_mask, &c_mask) {
                    if a != b {
                        result = Err(("par_mask_differs_from_llg_compute_mask".into(), json!({"history": hist})));
                        break;
                    }
                }
            } else {
                let mut res: LlgMaskResult = unsafe { std::mem::zeroed() };
                let code = llg_compute_mask(unsafe { &mut *cc }, &mut res);
                if (code != 0) != rm.is_err() {
                    result = Err(("compute_mask_status_differs".into(), json!({"c_code": code, "rust_error": rm.is_err(), "history": hist})));
                    break;
                }
                c_stop = res.is_stop;
                c_mask = if code == 0 && !res.sample_mask.is_null() { Some(unsafe { std::slice::from_raw_parts(res.sample_mask, n_words) }.to_vec()) } else { None };
            }
            ctx.rep.inc("mask_comparisons");
            let Ok((rmask, rstop)) = rm else { break };
            if c_stop != rstop {
                result = Err(("is_stop_differs".into(), json!({"c": c_stop, "rust": rstop, "history": hist})));
                break;
            }
            match (&c_mask, &rmask) {
                (Some(a), Some(b)) => {
                    if *a != mask_words_of(b, n_words) {
                        result = Err(("mask_differs_from_rust_mask".into(), json!({"history": hist})));
                        break;
                    }
                }
                (None, None) => {}
                _ => {
                    result = Err(("mask_presence_differs".into(), json!({"history": hist})));
                    break;
                }
            }
            if rstop {
                break;
            }
            let Some(m) = rmask else { break };
            // commit: mostly a legal token, sometimes an illegal / out-of-range one
            let t = match rng.below(12) {
                0 => n as u32 + rng.below(1000) as u32,
                1 => rng.below(n) as u32,
                _ => match {
                    let pol = walker::policy_for_step(&mut rng, step, steps);
                    walker::choose(&mut rng, &m, &v, pol)
                } {
                    Some(t) => t,
                    None => break,
                },
            };
            let mut cres: LlgCommitResult = unsafe { std::mem::zeroed() };
            let ccode = llg_commit_token(unsafe { &mut *cc }, t, &mut cres);
            let rr = rc.commit_token(if (t as usize) < n { Some(t) } else { None });
            ctx.rep.inc("commit_comparisons");
            if (ccode != 0) != rr.is_err() {
                result = Err(("commit_status_differs".into(), json!({"token": t, "c_code": ccode, "rust_error": rr.is_err(), "history": hist})));
                break;
            }
            let Ok(rr) = rr else { break };
            let ctoks: Vec<u32> = if cres.n_tokens == 0 { vec![] } else { unsafe { std::slice::from_raw_parts(cres.tokens, cres.n_tokens as usize) }.to_vec() };
            if ctoks != rr.ff_tokens || cres.is_stop != rr.stop {
                result = Err(("commit_result_differs".into(), json!({"token": t, "c_tokens": ctoks, "rust_tokens": rr.ff_tokens, "c_stop": cres.is_stop, "rust_stop": rr.stop})));
                break;
            }
            hist.extend(ctoks);
            if llg_is_stopped(unsafe { &*cc }) != rc.step_result().is_stop() {
                result = Err(("is_stopped_differs".into(), json!({"history": hist})));
                break;
            }
        }
        unsafe { llg_free_constraint(cc) };
        if let Err((k, d)) = result {
            viol!(&k, d);
        }
        if hist.len() >= 2 {
            ctx.rep.nontrivial(g.hash() ^ fnv(&hist.iter().flat_map(|t| t.to_le_bytes()).collect::<Vec<u8>>()) ^ (n as u64) << 50);
        }
        if idx % 64 == 0 {
            ctx.rep.sample(json!({"api": "constraint+par", "n_vocab": n, "grammar": g.name, "history_bytes": bytes_dbg(&v.trie().decode_raw(&hist)).chars().take(120).collect::<String>()}));
        }
    } else {
        // ---------------- matcher API
        let cm = unsafe { llg_new_matcher(&init, ckind.as_ptr(), ctext.as_ptr()) };
        let mut rm = match matcher(&f, &g) {
            Ok(m) => m,
            Err(e) => Matcher::new(Err(e)),
        };
        let cerr = llg_matcher_is_error(unsafe { &*cm });
        if cerr != rm.is_error() {
            unsafe { llg_free_matcher(cm) };
            viol!("matcher_creation_result_differs", json!({"c_error": cerr, "rust_error": rm.is_error()}));
        }
        if cerr {
            unsafe { llg_free_matcher(cm) };
            ctx.rep.inc("compile_errors");
            return;
        }
        ctx.rep.inc("cases");
        let mut hist: Vec<u32> = vec![];
        let steps = ctx.pick(14, 30);
        let mut result: Result<(), (String, serde_json::Value)> = Ok(());
        let m = unsafe { &mut *cm };
        if llg_matcher_get_mask_byte_size(m) != n_words * 4 {
            result = Err(("mask_byte_size".into(), json!({"got": llg_matcher_get_mask_byte_size(m), "want": n_words * 4})));
        }
        for step in 0..steps {
            if result.is_err() {
                break;
            }
            // wrong buffer sizes are refused without touching the buffer
            for delta in [-4isize, 4, 8] {
                let lb = (n_words as isize * 4 + delta).max(0) as usize;
                let mut gb = Guarded::new(lb / 4, 0x5555_5555);
                let code = unsafe { llg_matcher_compute_mask_into(m, gb.ptr(), lb) };
                ctx.rep.inc("wrong_size_calls");
                if code == 0 && lb != n_words * 4 {
                    result = Err(("wrong_buffer_size_accepted".into(), json!({"buffer_bytes": lb, "mask_bytes": n_words * 4})));
                }
                if !gb.canaries_ok() || (code != 0 && gb.data().iter().any(|&w| w != 0x5555_5555)) {
                    result = Err(("write_outside_or_into_refused_buffer".into(), json!({"buffer_bytes": lb})));
                }
            }
            let mut gb = Guarded::new(n_words, 0x5555_5555);
            let code = unsafe { llg_matcher_compute_mask_into(m, gb.ptr(), n_words * 4) };
            let want = rm.compute_mask_or_eos();
            ctx.rep.inc("mask_comparisons");
            if (code != 0) != want.is_err() {
                result = Err(("matcher_mask_status_differs".into(), json!({"c_code": code, "rust_error": want.is_err(), "history": hist})));
                break;
            }
            let Ok(want) = want else { break };
            if !gb.canaries_ok() {
                result = Err(("write_outside_caller_buffer".into(), json!({"history": hist})));
                break;
            }
            if gb.data() != &mask_words_of(&want, n_words)[..] {
                result = Err(("matcher_mask_differs_from_rust_mask".into(), json!({"history": hist})));
                break;
            }
            for (w, &x) in gb.data().iter().enumerate() {
                for b in 0..32 {
                    if x & (1 << b) != 0 && w * 32 + b >= n {
                        result = Err(("bit_at_or_above_vocab_in_caller_buffer".into(), json!({"bit": w * 32 + b})));
                    }
                }
            }
            // the other way of getting the mask
            if llg_matcher_compute_mask(m) == 0 {
                let p = llg_matcher_get_mask(m);
                if p.is_null() || unsafe { std::slice::from_raw_parts(p, n_words) } != gb.data() {
                    result = Err(("matcher_get_mask_differs".into(), json!({"history": hist})));
                    break;
                }
            }
            if llg_matcher_is_accepting(m) != rm.is_accepting().unwrap_or(false) || llg_matcher_is_stopped(m) != rm.is_stopped() {
                result = Err(("matcher_status_differs".into(), json!({"history": hist})));
                break;
            }
            // validate_tokens on a probe sequence
            let probe: Vec<u32> = (0..1 + rng.below(4)).map(|_| if rng.chance(1, 2) { walker::choose(&mut rng, &want, &v, walker::Policy::Uniform).unwrap_or(0) } else { rng.below(n + 3) as u32 }).collect();
            let cv = unsafe { llg_matcher_validate_tokens(m, probe.as_ptr(), probe.len()) };
            let rv = rm.validate_tokens(&probe);
            ctx.rep.inc("validate_comparisons");
            match rv {
                Ok(k) => {
                    if cv != k as i32 {
                        result = Err(("validate_tokens_differs".into(), json!({"probe": probe, "c": cv, "rust": k, "history": hist})));
                        break;
                    }
                }
                Err(_) => {
                    if cv != -1 {
                        result = Err(("validate_tokens_error_differs".into(), json!({"probe": probe, "c": cv})));
                    }
                    break;
                }
            }
            // ff tokens into a short guarded buffer
            let cap = rng.below(4);
            let mut fb = Guarded::new(cap, 0x7777_7777);
            let cn = unsafe { llg_matcher_compute_ff_tokens(m, fb.ptr(), cap) };
            let rf = rm.compute_ff_tokens();
            if !fb.canaries_ok() || cn != rf.len().min(cap) as i32 || fb.data()[..cn.max(0) as usize] != rf[..cn.max(0) as usize] {
                result = Err(("ff_tokens_differ_or_overflow".into(), json!({"cap": cap, "c_n": cn, "rust": rf, "history": hist})));
                break;
            }
            if rm.is_stopped() {
                break;
            }
            // rollback now and then
            if !hist.is_empty() && rng.chance(1, 6) {
                let k = 1 + rng.below(hist.len().min(3));
                let cr = llg_matcher_rollback(m, k);
                let rr = rm.rollback(k);
                ctx.rep.inc("rollback_comparisons");
                if (cr != 0) != rr.is_err() {
                    result = Err(("rollback_status_differs".into(), json!({"k": k, "c": cr, "rust_err": rr.is_err(), "history": hist})));
                    break;
                }
                if rr.is_err() {
                    break;
                }
                hist.truncate(hist.len() - k);
                continue;
            }
            let t = match rng.below(14) {
                0 => n as u32 + rng.below(100) as u32,
                1 => rng.below(n) as u32,
                _ => match {
                    let pol = walker::policy_for_step(&mut rng, step, steps);
                    walker::choose(&mut rng, &want, &v, pol)
                } {
                    Some(t) => t,
                    None => break,
                },
            };
            let cc = llg_matcher_consume_token(m, t);
            let rr = rm.consume_token(t);
            ctx.rep.inc("commit_comparisons");
            if (cc != 0) != rr.is_err() {
                result = Err(("consume_status_differs".into(), json!({"token": t, "c": cc, "rust_err": rr.is_err(), "history": hist})));
                break;
            }
            if rr.is_err() {
                if llg_matcher_is_error(m) != rm.is_error() {
                    result = Err(("error_state_differs_after_bad_token".into(), json!({"token": t})));
                }
                break;
            }
            hist.push(t);
        }
        unsafe { llg_free_matcher(cm) };
        if let Err((k, d)) = result {
            viol!(&k, d);
        }
        if hist.len() >= 2 {
            ctx.rep.nontrivial(g.hash() ^ fnv(&hist.iter().flat_map(|t| t.to_le_bytes()).collect::<Vec<u8>>()) ^ (n as u64) << 50 ^ 1);
        }
        if idx % 64 == 1 {
            ctx.rep.sample(json!({"api": "matcher", "n_vocab": n, "grammar": g.name, "history_bytes": bytes_dbg(&v.trie().decode_raw(&hist)).chars().take(120).collect::<String>()}));
        }
    }
}

pub fn run(ctx: &mut Ctx) {
    let n_cases = ctx.pick(1800, 40000);
    for idx in 0..n_cases {
        if !ctx.mine(idx) {
            continue;
        }
        if ctx.out_of_time() {
            break;
        }
        if idx % 5 == 4 {
            crate::mon_c17_aux::run_case(ctx, idx);
        } else {
            run_case(ctx, idx);
        }
    }
}
