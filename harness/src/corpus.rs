//! Hand-collected grammars: docs examples, sample_parser/data, shapes used in parser/tests.

use crate::engine::GCase;

pub fn lark_corpus() -> Vec<GCase> {
    let mut v = vec![];
    let mut l = |name: &str, text: &str| {
        let mut g = GCase::lark(name, text);
        // token ranges that contain the EOS id make EOS an ordinary grammar token
        if text.contains("<[^") || text.contains("<[*]>") {
            g = g.tag("tokrange_eos");
        }
        if ["special_tok", "special_alt", "tok_range", "tok_any"].contains(&name) {
            g = g.tag("special_token_ref");
        }
        v.push(g)
    };
    l("cache_ab", "start: \"a\" X \"b\" | \"c\" X \"d\"\nX: /x+/\n");
    l("arith", "start: expr\nexpr: term | expr \"+\" term | expr \"-\" term\nterm: factor | term \"*\" factor | term \"/\" factor\nfactor: NUMBER | \"(\" expr \")\" | \"-\" factor\nNUMBER: /[0-9]+(\\.[0-9]+)?/\n");
    l("arith_ws", "start: expr\nexpr: term (OP term)*\nterm: NUMBER | \"(\" expr \")\"\nOP: \"+\" | \"-\" | \"*\" | \"/\"\nNUMBER: /[0-9]+/\n%ignore /[ \\t]+/\n");
    l("brackets", "start: s\ns: | \"(\" s \")\" s | \"[\" s \"]\" s\n");
    l("anbn", "start: ab\nab: \"a\" ab \"b\" | \"ab\"\n");
    l("list", "start: \"[\" [item (\",\" item)*] \"]\"\nitem: /[a-z]+/ | /[0-9]+/ | start\n");
    l("kv", "start: pair (\";\" pair)*\npair: KEY \"=\" VALUE\nKEY: /[a-zA-Z_][a-zA-Z0-9_]*/\nVALUE: /[^;=]+/\n");
    l("json_inline", "start: TEXT | fun_call\nTEXT: /[^{](.|\\n)*/\nfun_call: %json {\"type\":\"object\",\"properties\":{\"name\":{\"const\":\"get_weather\"},\"parameters\":{\"type\":\"object\",\"properties\":{\"city\":{\"type\":\"string\"}},\"required\":[\"city\"]}},\"required\":[\"name\",\"parameters\"]}\n");
    l("two_json", "start: a | b\na: %json {\"type\":\"object\",\"properties\":{\"a\":{\"type\":\"integer\"}},\"required\":[\"a\"],\"additionalProperties\":false}\nb: %json {\"type\":\"object\",\"properties\":{\"b\":{\"type\":\"string\"}},\"required\":[\"b\"],\"additionalProperties\":false}\n");
    l("ascii_lines", "start: ASCII_LINES\nASCII_LINES: /[a-zA-Z \\n]*/ & ~/(?s:.*)\\n\\n(?s:.*)/\n");
    l("no_aaa", "start: T\nT: /(?s:.*)/ & ~/(?s:.*)AAA(?s:.*)/\n");
    l("int_terms", "start: INT (\",\" INT)*\nINT: \"-\"? UINT\nUINT: DIGIT+\nDIGIT: /[0-9]/\n");
    l("substring", "start: \"q: \" S\nS: %regex { \"substring_chunks\": [\"abc\", \"de\", \"fg\", \"h\"] }\n");
    l("substring_words", "start: \"[\" S \"]\"\nS: %regex { \"substring_words\": \"the quick brown fox jumps\" }\n");
    l("substring_chars", "start: S \".\"\nS: %regex { \"substring_chars\": \"ab ca\" }\n");
    l("lazy_tool", "start: ( f_foo | f_bar )* f_end\nf_end: TEXT\nTEXT: /(.|\\n)*/\nf_foo_hd[lazy]: TEXT \"<function\"\nf_foo: f_foo_hd \"=foo>\" %json { \"type\": \"object\" } \"</function>\"\nf_bar_hd[lazy]: TEXT \"<function\"\nf_bar: f_bar_hd \"=bar>\" /[0-9]+/ \"</function>\"\n");
    l("lazy_end", "start: body \"!\"\nbody[lazy]: /.*<end>/\n");
    l("suffix", "start: w \"|\" w\nw[suffix=\";\"]: /[a-z]*/\n");
    l("ignore_once", "%llguidance { \"ignore_once\": true }\n%ignore /[ \\t]{1,4}/\nstart: \"A\" \"!\" \"B\"\n");
    l("ignore_nl", "start: stmt+\nstmt: NAME \"=\" NUM \";\"\nNAME: /[a-z]+/\nNUM: /[0-9]+/\n%ignore /[ \\n]+/\n");
    l("perm3", "start    :  perm::0x0\nperm::_  :  \"\"                       %if is_ones([0:3])\n         |  \"a\" perm::set_bit(0)     %if bit_clear(0)\n         |  \"b\" perm::set_bit(1)     %if bit_clear(1)\n         |  \"c\" perm::set_bit(2)     %if bit_clear(2)\n");
    l("atleast_once", "start    :  perm::0x0\nperm::_  :  \"\"                       %if is_ones([0:3])\n         |  \"a\" perm::set_bit(0)\n         |  \"b\" perm::set_bit(1)\n         |  \"c\" perm::set_bit(2)\n");
    l("ab_lt20", "start  : aa::0\naa::_  : \"b\" aa::incr(_)    %if lt(_, 20)\n       | bb::_\nbb::_  : \"a\" bb::incr(_)    %if lt(_, 20)\n       | \"\"\n");
    l("counted", "start  : lst::0x0\nlst::_ : \"a\" lst::incr([0:3])  %if lt([0:3], 5)\n       | \"b\" lst::incr([3:6])  %if lt([3:6], 5)\n       | \"c\" lst::incr([6:9])  %if lt([6:9], 6)\n       | \"\"\n");
    l("pick13", "start    :  perm::0x0\nperm::_  :  \"\"                       %if bit_count_ge(_, 1)\n         |  \"a\" perm::set_bit(0)     %if and(bit_clear(0), bit_count_lt(_, 3))\n         |  \"b\" perm::set_bit(1)     %if and(bit_clear(1), bit_count_lt(_, 3))\n         |  \"c\" perm::set_bit(2)     %if and(bit_clear(2), bit_count_lt(_, 3))\n         |  \"d\" perm::set_bit(3)     %if and(bit_clear(3), bit_count_lt(_, 3))\n         |  \"e\" perm::set_bit(4)     %if and(bit_clear(4), bit_count_lt(_, 3))\n");
    l("special_tok", "start: <think> \"\\n\" /[a-z \\n]*/ </think> ans\nans: \"yes\" | \"no\"\n");
    l("special_alt", "start: TEXT | call\nTEXT: /[^{<](.|\\n)*/\ncall: <|tool|> \"f(\" /[0-9]+/ \")\" <a>\n");
    l("tok_range", "start: \"x\" <[256-258]> \"y\" | \"x\" <[^0-259]> \"z\"\n");
    l("tok_any", "start: \"go\" <[*]> \"!\"\n");
    l("nested_rep", "start: (\"a\" | \"bb\"){2,5} \"c\"{3} D{1,2}\nD: /[0-9]/\n");
    l("opt_chain", "start: a? b? c? \"x\"\na: \"a\"\nb: \"b\" | \"\"\nc: \"c\"*\n");
    l("ambig", "start: e\ne: e e | \"a\" | \"aa\" | \"\"\n");
    l("unicode", "start: WORD (\" \" WORD)*\nWORD: /[\\p{L}]+/ | \"\u{1f422}\" | /[\u{3b1}-\u{3c9}]{2}/\n");
    l("ci", "start: \"select\"i \" \" /[a-z]+/ \" \" \"from\"i\n");
    l("enum_prefix", "start: \"color: \" (\"red\" | \"redder\" | \"reddest\" | \"green\" | \"grey\" | \"gray\")\n");
    l("capture", "start: \"<\" name \">\" body \"</\" name \">\"\nname[capture]: /[a-z]+/\nbody[capture=\"b\"]: /[^<]*/\n");
    l("csv", "start: row (\"\\n\" row)*\nrow: cell (\",\" cell)*\ncell: /[^,\\n\"]*/ | \"\\\"\" /([^\"]|\"\")*/ \"\\\"\"\n");
    l("json_any", "start: %json {\"type\":\"object\"}\n");
    l("json_str_then", "start: s \" -> \" n\ns: %json {\"type\":\"string\",\"maxLength\":5}\nn: %json {\"type\":\"integer\",\"minimum\":-5,\"maximum\":120}\n");
    l("sql", "start: \"SELECT \" cols \" FROM \" NAME (\" WHERE \" cond)? \";\"\ncols: \"*\" | NAME (\", \" NAME)*\ncond: NAME OP VAL ((\" AND \" | \" OR \") NAME OP VAL)*\nOP: \"=\" | \"<\" | \">\" | \"<=\" | \">=\" | \"!=\"\nVAL: /[0-9]+/ | /'[^']*'/\nNAME: /[a-z_]+/\n");
    v
}

pub fn regex_corpus() -> Vec<GCase> {
    let rx = [
        "[a-z]+@[a-z]+\\.(com|org)",
        "(a|ab)(c|bcd)(d*)",
        "[0-9]{3}-[0-9]{4}",
        "(foo|foobar|fob)+x?",
        "-?(0|[1-9][0-9]*)(\\.[0-9]+)?([eE][+-]?[0-9]+)?",
        "\"([^\"\\\\]|\\\\.)*\"",
        "[^a]*a[^a]*",
        "(?i)hello world",
        "\\p{L}+( \\p{L}+)*",
        "(\u{e9}|e)+\u{65e5}?",
        ".{2,5}",
        "(?s:.)*end",
        "[\\x00-\\x7f]{0,4}z",
        "a{0,3}b{2,}c?",
        "(ab|cd|ef){1,3}",
        "\\d{1,3}(\\.\\d{1,3}){3}",
        "[A-Fa-f0-9]{8}(-[A-Fa-f0-9]{4}){3}-[A-Fa-f0-9]{12}",
        "\\w+\\s*=\\s*\\w+",
        "x*",
        "",
    ];
    rx.iter().enumerate().map(|(i, r)| GCase::regex(&format!("rx{i}"), r)).collect()
}

pub fn json_corpus() -> Vec<GCase> {
    let s = [
        r#"{"type":"object","properties":{"name":{"type":"string"},"age":{"type":"integer"}},"required":["name","age"],"additionalProperties":false}"#,
        r#"{"type":"object","properties":{"a":{"type":"string","maxLength":10},"b":{"type":"string","maxLength":30,"minLength":2}},"required":["a"]}"#,
        r#"{"type":"array","items":{"type":"integer","minimum":0,"maximum":255},"minItems":1,"maxItems":4}"#,
        r#"{"type":"object"}"#,
        r#"{}"#,
        r#"{"type":"string","pattern":"^[a-z]+[0-9]{2}$"}"#,
        r#"{"type":"string","format":"date-time"}"#,
        r#"{"type":"string","format":"uuid"}"#,
        r#"{"type":"number","minimum":-1.5,"maximum":99.25}"#,
        r#"{"type":"integer","multipleOf":3,"minimum":-10,"maximum":50}"#,
        r#"{"enum":["red","redder","green",1,2.5,null,true,{"a":1},[1,2]]}"#,
        r#"{"const":{"k":["v",1,false]}}"#,
        r#"{"anyOf":[{"type":"string"},{"type":"integer"},{"type":"array","items":{"type":"boolean"}}]}"#,
        r#"{"type":"object","properties":{"k":{"enum":["a","b"]},"n":{"type":"null"}},"additionalProperties":{"type":"integer"}}"#,
        r##"{"type":"object","properties":{"x":{"$ref":"#/$defs/p"},"y":{"$ref":"#/$defs/p"}},"required":["x"],"$defs":{"p":{"type":"object","properties":{"v":{"type":"number"}},"required":["v"],"additionalProperties":false}}}"##,
        r##"{"$ref":"#/$defs/tree","$defs":{"tree":{"type":"object","properties":{"v":{"type":"integer"},"kids":{"type":"array","items":{"$ref":"#/$defs/tree"},"maxItems":2}},"required":["v"],"additionalProperties":false}}}"##,
        r#"{"type":"array","prefixItems":[{"type":"string"},{"type":"integer"}],"items":{"type":"boolean"},"minItems":2,"maxItems":5}"#,
        r#"{"type":"object","patternProperties":{"^x_":{"type":"integer"}},"additionalProperties":false}"#,
        r#"{"type":"object","properties":{"a":{"type":"integer"}},"required":["a"],"minProperties":1,"maxProperties":3,"additionalProperties":{"type":"boolean"}}"#,
        r#"{"allOf":[{"type":"object","properties":{"a":{"type":"integer"}},"required":["a"]},{"type":"object","properties":{"b":{"type":"string"}},"required":["b"]}]}"#,
        r#"{"type":"object","properties":{"s":{"type":"string"}},"required":["s"],"x-guidance":{"whitespace_flexible":false,"item_separator":", ","key_separator":": "}}"#,
        r#"{"oneOf":[{"type":"integer","minimum":0,"maximum":9},{"type":"string","maxLength":3}]}"#,
        r#"{"type":["string","null"],"minLength":1,"maxLength":4}"#,
        r#"{"type":"object","properties":{"date":{"type":"string","format":"date"},"t":{"type":"string","format":"time"},"ip":{"type":"string","format":"ipv4"},"e":{"type":"string","format":"email"}},"required":["date","t"],"additionalProperties":false}"#,
    ];
    s.iter().enumerate().map(|(i, r)| GCase::json(&format!("js{i}"), r)).collect()
}

pub fn all_corpus() -> Vec<GCase> {
    let mut v = lark_corpus();
    v.extend(regex_corpus());
    v.extend(json_corpus());
    v
}
