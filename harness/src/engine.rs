//! Thin helpers around the public llguidance API used by all monitors.

use crate::rng::fnv;
use crate::vocab::Vocab;
use anyhow::Result;
use llguidance::api::{ParserLimits, TopLevelGrammar};
use llguidance::toktrie::{InferenceCapabilities, SimpleVob};
use llguidance::{Matcher, ParserFactory, TokenParser};
use serde::{Deserialize, Serialize};

#[derive(Clone, Copy, Debug, PartialEq, Eq, Serialize, Deserialize)]
pub enum GKind {
    Lark,
    Regex,
    Json,
}

/// One grammar case with the generator class tags that known-finding predicates match on.
#[derive(Clone, Debug, Serialize, Deserialize)]
pub struct GCase {
    pub kind: GKind,
    pub text: String,
    pub name: String,
    #[serde(default)]
    pub tags: Vec<String>,
}

impl GCase {
    pub fn lark(name: &str, text: &str) -> Self {
        GCase { kind: GKind::Lark, text: text.to_string(), name: name.to_string(), tags: vec![] }
    }
    pub fn regex(name: &str, text: &str) -> Self {
        GCase { kind: GKind::Regex, text: text.to_string(), name: name.to_string(), tags: vec![] }
    }
    pub fn json(name: &str, text: &str) -> Self {
        GCase { kind: GKind::Json, text: text.to_string(), name: name.to_string(), tags: vec![] }
    }
    pub fn tag(mut self, t: &str) -> Self {
        self.tags.push(t.to_string());
        self
    }
    pub fn has_tag(&self, t: &str) -> bool {
        self.tags.iter().any(|x| x == t)
    }
    pub fn top(&self) -> Result<TopLevelGrammar> {
        Ok(match self.kind {
            GKind::Lark => TopLevelGrammar::from_lark(self.text.clone()),
            GKind::Regex => TopLevelGrammar::from_regex(&self.text),
            GKind::Json => TopLevelGrammar::from_json_schema(serde_json::from_str(&self.text)?),
        })
    }
    pub fn hash(&self) -> u64 {
        fnv(self.text.as_bytes()) ^ (self.kind as u64).wrapping_mul(0x9E3779B97F4A7C15)
    }
}

#[derive(Clone, Debug, Default)]
pub struct FactoryOpts {
    /// None = default JSON slices; Some(v) = explicit list (may be empty)
    pub slices: Option<Vec<String>>,
    pub ff_tokens: bool,
    pub limits: Option<ParserLimits>,
}

pub fn limits_default() -> ParserLimits {
    ParserLimits { verbose_errors: false, ..ParserLimits::default() }
}

pub fn factory(v: &Vocab, o: &FactoryOpts) -> Result<ParserFactory> {
    let slices = match &o.slices {
        None => llguidance::earley::SlicedBiasComputer::general_slices(),
        Some(s) => s.clone(),
    };
    let caps = InferenceCapabilities { ff_tokens: o.ff_tokens, ..Default::default() };
    let mut f = ParserFactory::new(&v.env, caps, &slices)?;
    f.quiet();
    *f.limits_mut() = o.limits.clone().unwrap_or_else(limits_default);
    Ok(f)
}

pub fn factory_noslice(v: &Vocab) -> Result<ParserFactory> {
    factory(v, &FactoryOpts { slices: Some(vec![]), ..Default::default() })
}

pub fn parser(f: &ParserFactory, g: &GCase) -> Result<TokenParser> {
    f.create_parser(g.top()?)
}

/// Matcher over a fresh parser; Err if the grammar does not compile.
pub fn matcher(f: &ParserFactory, g: &GCase) -> Result<Matcher> {
    let p = parser(f, g)?;
    Ok(Matcher::new(Ok(p)))
}

pub fn mask_list(m: &SimpleVob, n_vocab: usize) -> Vec<u32> {
    let mut r = vec![];
    for t in 0..n_vocab {
        if m.is_allowed(t as u32) {
            r.push(t as u32);
        }
    }
    r
}

pub fn mask_eq(a: &SimpleVob, b: &SimpleVob, n_vocab: usize) -> bool {
    (0..n_vocab).all(|t| a.is_allowed(t as u32) == b.is_allowed(t as u32))
}

/// first few differing token ids (id, in_a, in_b)
pub fn mask_diff(a: &SimpleVob, b: &SimpleVob, n_vocab: usize) -> Vec<(u32, bool, bool)> {
    let mut r = vec![];
    for t in 0..n_vocab as u32 {
        if a.is_allowed(t) != b.is_allowed(t) {
            r.push((t, a.is_allowed(t), b.is_allowed(t)));
            if r.len() >= 8 {
                break;
            }
        }
    }
    r
}

pub fn mask_hash(m: &SimpleVob, n_vocab: usize) -> u64 {
    let mut h: u64 = 0xcbf29ce484222325;
    for t in 0..n_vocab as u32 {
        if m.is_allowed(t) {
            h ^= t as u64 + 1;
            h = h.wrapping_mul(0x100000001b3);
        }
    }
    h
}

/// StopReason values that are documented resource-limit stops => inconclusive, not a verdict.
pub fn is_resource_stop(m: &Matcher) -> bool {
    use llguidance::api::StopReason::*;
    matches!(m.stop_reason(), LexerTooComplex | ParserTooComplex | MaxTokensTotal | MaxTokensParser)
}


thread_local! {
    /// token history of the last failing mask computation (set where the failure is seen, read where the
    /// violation would be filed)
    pub static LAST_FAILED_HIST: std::cell::RefCell<Vec<u32>> = const { std::cell::RefCell::new(Vec::new()) };
}

pub fn note_failed_hist(h: &[u32]) {
    LAST_FAILED_HIST.with(|x| *x.borrow_mut() = h.to_vec());
}

/// The Matcher folds every failure into InternalError. To learn whether a failing call was a documented
/// resource-limit stop, the history is replayed on a bare TokenParser whose StopReason stays visible.
pub fn resource_stop_on_replay(f: &ParserFactory, g: &GCase, hist: &[u32]) -> bool {
    use llguidance::api::StopReason::*;
    let r = std::panic::catch_unwind(std::panic::AssertUnwindSafe(|| {
        let Ok(mut p) = parser(f, g) else { return false };
        p.start_without_prompt();
        for &t in hist {
            if p.consume_token(t).is_err() {
                // apply_token labels every failing commit ParserTooComplex: only the parser-level error
                // (item limit, lexer fuel / state limit) or the token budget identifies a resource stop
                return p.parser.get_error().is_some() || matches!(p.stop_reason(), MaxTokensTotal | MaxTokensParser);
            }
        }
        let _ = p.compute_mask();
        p.parser.get_error().is_some() || matches!(p.stop_reason(), LexerTooComplex | ParserTooComplex | MaxTokensTotal | MaxTokensParser)
    }));
    r.unwrap_or(false)
}
