//! C11: caching never changes a mask. Repeated mask / mask after invalidate / mask after
//! arbitrary read-only queries / fresh engine replaying the same tokens all agree.

use crate::cmp::*;
use crate::ctx::Ctx;
use crate::engine::*;
use crate::pool;
use crate::report::bytes_dbg;
use crate::rng::{fnv, Rng};
use crate::vocab::Vocab;
use crate::walker;
use llguidance::verif_hooks as vh;
use llguidance::{Matcher, ParserFactory};
use serde_json::json;
use std::sync::atomic::Ordering;

fn hits() -> u64 {
    vh::BIAS_CACHE_HITS.load(Ordering::Relaxed)
}

/// run the query mix on `m` in state `hist`; Err = violation
fn check_state(rng: &mut Rng, m: &mut Matcher, f: &ParserFactory, g: &GCase, v: &Vocab, hist: &[u32], rep: &mut crate::report::Report) -> Result<(), (String, serde_json::Value)> {
    let n = v.n();
    // random read-only preamble: leaves traces in caches if anything does
    let pre = rng.below(4);
    let mut preamble: Vec<&str> = vec![];
    for _ in 0..pre {
        match rng.below(5) {
            0 => {
                preamble.push("mask");
                let _ = m.compute_mask();
            }
            1 => {
                preamble.push("validate");
                let k = 1 + rng.below(3);
                let seq: Vec<u32> = (0..k).map(|_| rng.below(n) as u32).collect();
                let _ = m.validate_tokens(&seq);
            }
            2 => {
                preamble.push("is_accepting");
                let _ = m.is_accepting();
            }
            3 => {
                preamble.push("ff_bytes_query");
                let _ = m.compute_ff_bytes();
            }
            _ => {
                preamble.push("ff_tokens_query");
                let _ = m.compute_ff_tokens();
            }
        }
    }
    let r = check_state_inner(rng, m, f, g, v, hist, rep);
    r.map_err(|(k, mut d)| {
        if preamble.contains(&"ff_bytes_query") {
            d["ff_bytes_asked_before"] = json!(true);
        }
        d["preamble"] = json!(preamble);
        (k, d)
    })
}

fn check_state_inner(rng: &mut Rng, m: &mut Matcher, f: &ParserFactory, g: &GCase, v: &Vocab, hist: &[u32], rep: &mut crate::report::Report) -> Result<(), (String, serde_json::Value)> {
    let n = v.n();
    let h0 = hits();
    if m.is_error() {
        return Ok(());
    }
    let m1 = ask(m, Query::Mask, n);
    if m1 == Ans::Mask(None) {
        // the mask query itself failed: a fresh engine must fail the same way; nothing else is comparable
        let Some(mut fr) = fresh_replay(f, g, hist) else { return Ok(()) };
        let w = ask(&mut fr, Query::Mask, n);
        rep.inc("failed_mask_states");
        if w != m1 {
            return Err(("mask_error_differs_from_fresh".into(), json!({"fresh": ans_brief(&w)})));
        }
        return Ok(());
    }
    let m2 = ask(m, Query::Mask, n);
    rep.inc("mask_repeat_checks");
    if m1 != m2 {
        return Err(("mask_differs_on_repeat".into(), json!({"first": ans_brief(&m1), "second": ans_brief(&m2), "delta": mask_delta(&m1, &m2)})));
    }
    m.invalidate_bias_cache();
    let m3 = ask(m, Query::Mask, n);
    rep.inc("mask_invalidate_checks");
    if m1 != m3 {
        return Err(("mask_differs_after_invalidate".into(), json!({"cached": ans_brief(&m1), "recomputed": ans_brief(&m3), "delta": mask_delta(&m1, &m3)})));
    }
    // and all queries against fresh engines
    let k = compare_queries_with_fresh(rng, m, f, g, v, hist, &ALL_QUERIES, false)?;
    rep.add("fresh_query_checks", k as u64);
    rep.inc("states");
    let dh = hits() - h0;
    rep.add("bias_cache_hits_observed", dh);
    if let Ans::Mask(Some(l)) = &m1 {
        if dh > 0 && l.len() >= 2 && l.len() < n {
            rep.nontrivial(g.hash() ^ fnv(&hist.iter().flat_map(|t| t.to_le_bytes()).collect::<Vec<u8>>()).rotate_left(13) ^ fnv(v.name.as_bytes()));
        }
    }
    Ok(())
}

/// did the op list roll back over (or reset past) a commit of token `t`?
pub fn rolled_back_over(ops: &[String], t: u32) -> bool {
    let mut stack: Vec<u32> = vec![];
    for o in ops {
        if let Some(x) = o.strip_prefix("commit ") {
            stack.push(x.parse().unwrap_or(u32::MAX));
        } else if let Some(k) = o.strip_prefix("rollback ") {
            let k: usize = k.parse().unwrap_or(0);
            let n = stack.len().saturating_sub(k);
            if stack[n..].contains(&t) {
                return true;
            }
            stack.truncate(n);
        } else if o == "reset" {
            if stack.contains(&t) {
                return true;
            }
            stack.clear();
        }
    }
    false
}

/// Finding D8 seen across commits, verified on the engine: on a fresh engine of the same factory inputs the mask in
/// state `hist` is fine, but it fails as soon as compute_ff_bytes() was asked at some earlier prefix of `hist`
/// (the forced bytes through a special token stay behind as a token prefix that no token matches).
fn d8_pattern_at_prefix(f: &ParserFactory, g: &GCase, hist: &[u32]) -> Option<usize> {
    if !g.has_tag("special_token_ref") {
        return None;
    }
    let mut clean = fresh_replay(f, g, hist)?;
    if clean.compute_mask().is_err() {
        return None;
    }
    for j in 0..=hist.len() {
        let Some(mut m) = fresh_replay(f, g, &hist[..j]) else { continue };
        let _ = m.compute_ff_bytes();
        if hist[j..].iter().any(|&t| m.consume_token(t).is_err()) {
            continue;
        }
        if m.compute_mask().is_err() {
            return Some(j);
        }
    }
    None
}

fn viol(ctx: &mut Ctx, idx: u64, g: &GCase, v: &Vocab, hist: &[u32], ops: &[String], kind: &str, detail: serde_json::Value) {
    let mut detail = detail;
    if (kind == "mask_error_differs_from_fresh" || kind == "differs_from_fresh_mask") && detail.get("ff_bytes_asked_before").and_then(|b| b.as_bool()) != Some(true) {
        if let Ok(f) = factory(v, &FactoryOpts::default()) {
            if let Some(j) = d8_pattern_at_prefix(&f, g, hist) {
                detail["ff_bytes_asked_before"] = json!(true);
                detail["forced_bytes_query_at_prefix_reproduces_it"] = json!(j);
            }
        }
    }
    let d = json!({"case": pool::describe(ctx, g, v), "rolled_back_over_eos_id": rolled_back_over(ops, v.eos), "history": hist, "history_bytes": bytes_dbg(&v.trie().decode_raw(hist)), "ops": ops, "oracle": detail});
    let rp = ctx.replay(idx);
    let tags = g.tags.clone();
    ctx.rep.violation(kind, &tags, d, rp);
}

/// grammars where two different prefixes lead back to the same (row, lexer state) shape
pub fn twin_prefix_grammars() -> Vec<GCase> {
    vec![
        GCase::lark("twin_ab", "start: \"a\" X \"b\" | \"c\" X \"d\"\nX: /x+/\n").tag("twin"),
        GCase::lark("twin_num", "start: \"p\" N \"!\" | \"q\" N \"?\"\nN: /[0-9]+/\n").tag("twin"),
        GCase::lark("twin_kw", "start: (\"let \" | \"var \") ID (\" = 1;\" | \" := 2;\")\nID: /[a-z]+/\n").tag("twin"),
        GCase::json("twin_props", r#"{"type":"object","properties":{"a":{"type":"string"},"b":{"type":"string"}},"additionalProperties":false}"#).tag("twin"),
        GCase::json("twin_anyof", r#"{"anyOf":[{"type":"object","properties":{"k":{"type":"integer"}},"required":["k"],"additionalProperties":false},{"type":"array","items":{"type":"integer"},"minItems":1,"maxItems":1}]}"#).tag("twin"),
        GCase::lark("twin_rep", "start: \"(\" W \")\" | \"[\" W \"]\" | \"{\" W \"}\"\nW: /[a-c]{1,4}/\n").tag("twin"),
        // lazy lexemes whose accepting lexer state is reachable by several (state, byte) routes: which route
        // creates the shared lexer state first depends on the sibling's history
        GCase::lark("twin_lazy_num", "start: body \"!\" | NUM\nbody[lazy]: /.*;/\nNUM: /[0-9]+/\n").tag("twin").tag("hot:x;!1"),
        GCase::lark("twin_lazy_kw", "start: (\"a\" | \"b\")? body \"!\" | WORD \"?\"\nbody[lazy]: /[a-z]*;/\nWORD: /[a-z]+/\n").tag("twin").tag("hot:ab;!?x"),
        GCase::lark("twin_lazy_two", "start: one \"1\" | two \"2\" | /[xy]+/\none[lazy]: /[a-z]*q/\ntwo[lazy]: /[a-y]*zq/\n").tag("twin").tag("hot:qzx12a"),
    ]
}

fn run_case(ctx: &mut Ctx, idx: u64) {
    let mut rng = ctx.case_rng(idx);
    let twins = twin_prefix_grammars();
    let g = pick_grammar(&mut rng, idx, &twins);
    let vk = pool::pick_vkind(&mut rng, ctx.thorough);
    let v = pool::make_vocab(&mut rng, &g, vk);
    let Ok(f) = factory(&v, &FactoryOpts::default()) else { return };
    let Ok(mut m) = matcher(&f, &g) else {
        ctx.rep.inc("compile_errors");
        return;
    };
    if m.is_error() {
        ctx.rep.inc("compile_errors");
        return;
    }
    ctx.rep.inc("cases");
    let steps = ctx.pick(14, 30);
    let mut hist: Vec<u32> = vec![];
    let mut ops: Vec<String> = vec![];
    for step in 0..steps {
        if m.is_stopped() {
            break;
        }
        if rng.chance(3, 5) {
            ops.push("check".into());
            if let Err((kind, detail)) = check_state(&mut rng, &mut m, &f, &g, &v, &hist, &mut ctx.rep) {
                viol(ctx, idx, &g, &v, &hist, &ops, &kind, detail);
                return;
            }
        }
        if m.is_stopped() || m.is_error() {
            if is_resource_stop(&m) {
                ctx.rep.inconclusive("resource_stop");
            }
            break;
        }
        // rollback / reset then a *different* continuation
        if !hist.is_empty() && rng.chance(1, 4) {
            let k = if rng.chance(1, 5) { hist.len() } else { 1 + rng.below(hist.len().min(4)) };
            let r = if k == hist.len() && rng.chance(1, 2) { m.reset() } else { m.rollback(k) };
            if r.is_err() {
                break;
            }
            hist.truncate(hist.len() - k);
            ops.push(format!("rollback {k}"));
            ctx.rep.inc("rollbacks");
            continue;
        }
        let pol = walker::policy_for_step(&mut rng, step, steps);
        let Some(t) = choose_via_fresh(&mut rng, &f, &g, &v, &hist, pol) else { break };
        if m.consume_token(t).is_err() {
            if crate::tp::accepted_with_relaxed_limits(&v, None, &g, &hist, t) {
                ctx.rep.inconclusive("resource_stop");
                return;
            }
            viol(ctx, idx, &g, &v, &hist, &ops, "token_from_fresh_mask_rejected", json!({"token": t}));
            return;
        }
        ops.push(format!("commit {t}"));
        hist.push(t);
    }
    if !m.is_stopped() && !m.is_error() {
        ops.push("check".into());
        if let Err((kind, detail)) = check_state(&mut rng, &mut m, &f, &g, &v, &hist, &mut ctx.rep) {
            viol(ctx, idx, &g, &v, &hist, &ops, &kind, detail);
            return;
        }
    }
    if !hist.is_empty() {
        ctx.rep.sample(json!({"grammar": g.name, "vocab": v.name, "ops": ops.iter().take(24).collect::<Vec<_>>(), "final_history_bytes": bytes_dbg(&v.trie().decode_raw(&hist))}));
    }
}

pub fn pick_grammar(rng: &mut Rng, idx: u64, twins: &[GCase]) -> GCase {
    match rng.below(20) {
        0..=4 => twins[rng.below(twins.len())].clone(),
        5..=11 => {
            let i = rng.below(pool::n_corpus() as usize) as u64;
            pool::grammar(rng, i)
        }
        _ => pool::grammar(rng, 1_000_000 + idx),
    }
}

pub fn run(ctx: &mut Ctx) {
    let n_cases = ctx.pick(8000, 150000);
    for idx in 0..n_cases {
        if !ctx.mine(idx) {
            continue;
        }
        if ctx.out_of_time() {
            break;
        }
        run_case(ctx, idx);
    }
    ctx.rep.add("bias_cache_hits_total", hits());
    ctx.rep.add("bias_cache_misses_total", vh::BIAS_CACHE_MISSES.load(Ordering::Relaxed));
    ctx.rep.add("bias_cache_stores_total", vh::BIAS_CACHE_STORES.load(Ordering::Relaxed));
}
