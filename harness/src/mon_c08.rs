//! C08: numeric bound keywords admit exactly the numbers inside the bounds.
//! Oracle: exact decimal arithmetic on the *texts* of bounds and literals.

use crate::ctx::Ctx;
use crate::engine::*;
use crate::ref_json::Dec;
use crate::rng::fnv;
use crate::vocab;
use llguidance::{Matcher, ParserFactory};
use serde_json::json;

#[derive(Clone, Debug)]
struct NumCase {
    lo: Option<String>,
    lo_excl: bool,
    hi: Option<String>,
    hi_excl: bool,
    integer: bool,
    mult: Option<String>,
    class: &'static str,
    /// additional bound keywords on top of lo/hi (e.g. maximum AND exclusiveMaximum)
    extra: Vec<(&'static str, String)>,
}

impl NumCase {
    fn schema_text(&self) -> String {
        let mut parts = vec![format!("\"type\":\"{}\"", if self.integer { "integer" } else { "number" })];
        if let Some(l) = &self.lo {
            parts.push(format!("\"{}\":{}", if self.lo_excl { "exclusiveMinimum" } else { "minimum" }, l));
        }
        if let Some(h) = &self.hi {
            parts.push(format!("\"{}\":{}", if self.hi_excl { "exclusiveMaximum" } else { "maximum" }, h));
        }
        for (k, v) in &self.extra {
            parts.push(format!("\"{k}\":{v}"));
        }
        if let Some(m) = &self.mult {
            parts.push(format!("\"multipleOf\":{m}"));
        }
        format!("{{{}}}", parts.join(","))
    }

    /// exact membership of a plain decimal literal
    fn admits(&self, lit: &str) -> Option<bool> {
        let x = Dec::parse(lit)?;
        use std::cmp::Ordering::*;
        if self.integer && !x.is_integer() {
            return Some(false);
        }
        if let Some(l) = &self.lo {
            let c = x.cmp(&Dec::parse(l)?);
            if c == Less || (self.lo_excl && c == Equal) {
                return Some(false);
            }
        }
        if let Some(h) = &self.hi {
            let c = x.cmp(&Dec::parse(h)?);
            if c == Greater || (self.hi_excl && c == Equal) {
                return Some(false);
            }
        }
        for (k, v) in &self.extra {
            let c = x.cmp(&Dec::parse(v)?);
            let ok = match *k {
                "minimum" => c != Less,
                "exclusiveMinimum" => c == Greater,
                "maximum" => c != Greater,
                "exclusiveMaximum" => c == Less,
                _ => true,
            };
            if !ok {
                return Some(false);
            }
        }
        if let Some(m) = &self.mult {
            return x.is_multiple_of(&Dec::parse(m)?);
        }
        Some(true)
    }

    /// fold the extra keywords into one effective pair of bounds (stricter wins, exclusive wins ties)
    fn effective(&self) -> NumCase {
        let mut e = self.clone();
        e.extra.clear();
        use std::cmp::Ordering::*;
        for (k, v) in &self.extra {
            let d = Dec::parse(v).unwrap();
            match *k {
                "minimum" | "exclusiveMinimum" => {
                    let excl = *k == "exclusiveMinimum";
                    let replace = match &e.lo {
                        None => true,
                        Some(l) => match d.cmp(&Dec::parse(l).unwrap()) {
                            Greater => true,
                            Equal => excl && !e.lo_excl,
                            Less => false,
                        },
                    };
                    if replace {
                        e.lo = Some(v.clone());
                        e.lo_excl = excl;
                    }
                }
                _ => {
                    let excl = *k == "exclusiveMaximum";
                    let replace = match &e.hi {
                        None => true,
                        Some(h) => match d.cmp(&Dec::parse(h).unwrap()) {
                            Less => true,
                            Equal => excl && !e.hi_excl,
                            Greater => false,
                        },
                    };
                    if replace {
                        e.hi = Some(v.clone());
                        e.hi_excl = excl;
                    }
                }
            }
        }
        e
    }

    /// exact emptiness; None = not decided by this oracle. All inputs have <=4 fraction digits.
    fn is_empty(&self) -> Option<bool> {
        if !self.extra.is_empty() {
            return self.effective().is_empty();
        }
        const S: i128 = 10_000;
        let sc = |t: &str| -> Option<i128> {
            let d = Dec::parse(t)?;
            // value * S as integer
            let mut v: i128 = 0;
            for &x in &d.digits {
                v = v.checked_mul(10)?.checked_add(x as i128)?;
            }
            let e = d.exp + 4;
            if e < 0 {
                return None;
            }
            for _ in 0..e {
                v = v.checked_mul(10)?;
            }
            Some(if d.neg { -v } else { v })
        };
        let lo = match &self.lo {
            Some(l) => Some(sc(l)?),
            None => None,
        };
        let hi = match &self.hi {
            Some(h) => Some(sc(h)?),
            None => None,
        };
        // step (scaled): for numbers the multipleOf itself (or "dense" = None), for integers lcm-like reasoning
        let step: Option<i128> = match (&self.mult, self.integer) {
            (None, true) => Some(S),
            (None, false) => None,
            (Some(m), integer) => {
                let ms = sc(m)?;
                if ms <= 0 {
                    return None;
                }
                if integer {
                    // integers that are multiples of ms/S: multiples of ms/gcd(ms,S)
                    fn gcd(a: i128, b: i128) -> i128 {
                        if b == 0 {
                            a
                        } else {
                            gcd(b, a % b)
                        }
                    }
                    Some(ms / gcd(ms, S) * S)
                } else {
                    Some(ms)
                }
            }
        };
        match step {
            None => Some(match (lo, hi) {
                (Some(l), Some(h)) => l > h || (l == h && (self.lo_excl || self.hi_excl)),
                _ => false,
            }),
            Some(st) => {
                let (Some(l), Some(h)) = (lo, hi) else { return Some(false) };
                // smallest multiple of st that is >= l (or > l)
                let mut k = l.div_euclid(st);
                if k * st < l || (self.lo_excl && k * st == l) {
                    k += 1;
                }
                let first = k * st;
                Some(first > h || (self.hi_excl && first == h))
            }
        }
    }
}

/// bounds one ulp below / above a short decimal: their shortest text has 16-17 significant digits
fn ulp_block(ctx: &mut Ctx, idx: &mut u64) {
    let bases = ["2.47", "0.1", "-3.3", "100.01", "1.005", "-0.07", "12.5", "0.3", "7.77", "-9.16"];
    let Ok(f) = factory_noslice(&crate::vocab::v1(false)) else { return };
    for base in bases {
        for dir in [-1i64, 1] {
            for kw in ["minimum", "maximum", "exclusiveMinimum", "exclusiveMaximum"] {
                *idx += 1;
                if !ctx.mine(*idx) {
                    continue;
                }
                let v: f64 = base.parse().unwrap();
                let bits = v.to_bits() as i64;
                // moving away from zero increases the bit pattern for either sign
                let nb = f64::from_bits((bits + dir) as u64);
                let bound = format!("{nb}");
                if bound.len() < base.len() + 8 {
                    continue;
                }
                let schema = format!("{{\"type\":\"number\",\"{kw}\":{bound}}}");
                let g = GCase::json("c08_ulp", &schema);
                let Ok(m0) = matcher(&f, &g) else { continue };
                if m0.is_error() {
                    continue;
                }
                ctx.rep.inc("schemas");
                ctx.rep.inc("ulp_bound_schemas");
                let (db, dl) = (Dec::parse(&bound).unwrap(), Dec::parse(base).unwrap());
                for lit in [base.to_string(), bound.clone()] {
                    let dv = Dec::parse(&lit).unwrap();
                    let ord = dv.cmp(&db);
                    let want = match kw {
                        "minimum" => ord != std::cmp::Ordering::Less,
                        "maximum" => ord != std::cmp::Ordering::Greater,
                        "exclusiveMinimum" => ord == std::cmp::Ordering::Greater,
                        _ => ord == std::cmp::Ordering::Less,
                    };
                    let got = accepts(&m0, &lit);
                    ctx.rep.inc("literal_probes");
                    if got != want {
                        let _ = &dl;
                        let d = json!({"schema": schema, "literal": lit, "expected_accept": want, "engine_accepts": got, "short_decimal": base, "bound_is_one_ulp": if dir < 0 { "towards zero" } else { "away from zero" }});
                        let rp = ctx.replay(*idx);
                        ctx.rep.violation("bound_needing_17_significant_digits_is_rounded", &["ulp_bound".to_string()], d, rp);
                        break;
                    }
                }
                ctx.rep.nontrivial(fnv(schema.as_bytes()));
            }
        }
    }
}

fn accepts(m0: &Matcher, lit: &str) -> bool {
    let mut m = m0.clone();
    for &b in lit.as_bytes() {
        if m.is_stopped() || m.consume_token(b as u32).is_err() {
            return false;
        }
    }
    if m.is_stopped() {
        m.stop_reason().is_ok()
    } else {
        m.is_accepting().unwrap_or(false)
    }
}

/// canonical plain-decimal text of the same value: no trailing fraction zeros, no bare ".", "-0" -> "0"
fn canonical(lit: &str) -> String {
    let mut t = lit.to_string();
    if t.contains('.') {
        t = t.trim_end_matches('0').trim_end_matches('.').to_string();
    }
    if t == "-0" || t.is_empty() || t == "-" {
        t = "0".into();
    }
    t
}

fn f64_exact(t: &str) -> bool {
    // bounds travel through f64 inside the engine: integers of magnitude >= 2^53 lose +-1 precision
    if t.contains('.') {
        return true;
    }
    match t.parse::<i128>() {
        Ok(i) => i.abs() < 9_007_199_254_740_992,
        _ => true,
    }
}

/// failure family, assigned only when its defining pattern is verified on the engine
fn classify(c: &NumCase, m0: &Matcher, lit: &str, want: bool) -> String {
    let frac_len = |t: &str| t.split('.').nth(1).map_or(0, |f| f.len());
    let bounds: Vec<&String> = c.lo.iter().chain(c.hi.iter()).collect();
    if bounds.iter().any(|b| !f64_exact(b)) {
        return "bound_magnitude_beyond_f64_integer_precision".into();
    }
    let canon = canonical(lit);
    if want {
        if canon.contains('.') && bounds.iter().any(|b| b.len() > canon.len() && b.starts_with(&canon)) {
            return "truncated_bound_literal_rejected".into();
        }
        if lit != canon && accepts(m0, &canon) {
            return "noncanonical_trailing_zero_form_rejected".into();
        }
        if let (Some(m), false) = (&c.mult, c.integer) {
            if frac_len(&canon) >= 1 && frac_len(&canon) < frac_len(m) {
                return "short_fraction_under_multipleof_rejected".into();
            }
        }
        if lit != canon {
            return classify(c, m0, &canon, want);
        }
        "inside_literal_rejected".into()
    } else {
        let is_lo = c.lo.as_ref().is_some_and(|l| Dec::parse(l) == Dec::parse(lit));
        if is_lo && c.lo_excl && !c.integer && frac_len(c.lo.as_ref().unwrap()) == 0 && c.hi.as_ref().is_some_and(|h| frac_len(h) > 0) {
            return "exclusive_integer_minimum_accepted_with_fractional_maximum".into();
        }
        "outside_literal_accepted".into()
    }
}

fn pad_fraction(lit: &str, digits: usize) -> String {
    let mut t = lit.to_string();
    let cur = t.split('.').nth(1).map_or(0, |f| f.len());
    if !t.contains('.') {
        t.push('.');
    }
    for _ in cur..digits {
        t.push('0');
    }
    t
}

fn dec_add(t: &str, delta_num: i64, delta_frac_digits: u32) -> String {
    // t + delta_num * 10^-delta_frac_digits, exact, t has <=4 fraction digits
    let d = Dec::parse(t).unwrap();
    let mut v: i128 = 0;
    for &x in &d.digits {
        v = v * 10 + x as i128;
    }
    let fd = 6u32;
    let e = d.exp + fd as i64;
    for _ in 0..e.max(0) {
        v *= 10;
    }
    if d.neg {
        v = -v;
    }
    v += delta_num as i128 * 10i128.pow(fd - delta_frac_digits);
    let neg = v < 0;
    let a = v.abs();
    let ip = a / 10i128.pow(fd);
    let fp = a % 10i128.pow(fd);
    let mut s = format!("{}{}", if neg { "-" } else { "" }, ip);
    if fp != 0 {
        let f = format!("{:06}", fp);
        s.push('.');
        s.push_str(f.trim_end_matches('0'));
    }
    s
}

fn literals(c: &NumCase) -> Vec<String> {
    let mut v: Vec<String> = vec![];
    let mut around = |t: &str, v: &mut Vec<String>| {
        // integers around the bound
        let d = Dec::parse(t).unwrap();
        let big = d.digits.len() as i64 + d.exp > 9;
        let span: i64 = if big { 3 } else { 12 };
        for k in -span..=span {
            let s = dec_add(t, k, 0);
            // integer part only
            let s = s.split('.').next().unwrap().to_string();
            v.push(if s == "-0" { "0".into() } else { s });
        }
        for fd in 1..=4u32 {
            for k in [-1i64, 1, 5, -5] {
                v.push(dec_add(t, k, fd));
            }
        }
        v.push(t.to_string());
        // trailing-zero forms of the bound value
        if t.contains('.') {
            v.push(format!("{t}0"));
        } else {
            v.push(format!("{t}.0"));
            v.push(format!("{t}.00"));
        }
    };
    if let Some(l) = &c.lo {
        around(l, &mut v);
    }
    if let Some(h) = &c.hi {
        around(h, &mut v);
    }
    for (_, x) in &c.extra {
        around(x, &mut v);
    }
    if c.lo.is_none() && c.hi.is_none() {
        around("0", &mut v);
    }
    if let Some(m) = &c.mult {
        // multiples near the bounds
        for base in [c.lo.as_deref(), c.hi.as_deref()].into_iter().flatten() {
            let b = Dec::parse(base).unwrap();
            let mm = Dec::parse(m).unwrap();
            // approximate quotient through f64 only to pick candidates; verdicts stay exact
            let q = (base.parse::<f64>().unwrap_or(0.0) / m.parse::<f64>().unwrap_or(1.0)).round() as i64;
            let _ = (b, mm);
            for k in q - 2..=q + 2 {
                // k * m exactly
                let md = Dec::parse(m).unwrap();
                let mut mv: i128 = 0;
                for &x in &md.digits {
                    mv = mv * 10 + x as i128;
                }
                let prod = mv * k as i128;
                let neg = prod < 0;
                let mut digits = prod.abs().to_string();
                let e = md.exp;
                if e < 0 {
                    let fe = (-e) as usize;
                    while digits.len() <= fe {
                        digits.insert(0, '0');
                    }
                    let (ip, fp) = digits.split_at(digits.len() - fe);
                    let fp = fp.trim_end_matches('0');
                    digits = if fp.is_empty() { ip.to_string() } else { format!("{ip}.{fp}") };
                } else {
                    for _ in 0..e {
                        digits.push('0');
                    }
                }
                if digits.chars().all(|c| c == '0' || c == '.') {
                    v.push("0".into());
                } else {
                    v.push(format!("{}{}", if neg { "-" } else { "" }, digits));
                }
            }
        }
    }
    v.push("0".into());
    v.sort();
    v.dedup();
    v.retain(|s| s != "-0" && !s.starts_with("-0.") || s.starts_with("-0.") && s.trim_start_matches("-0.").chars().any(|c| c != '0'));
    v
}

fn check_case(ctx: &mut Ctx, idx: u64, c: &NumCase, f: &ParserFactory) {
    let text = c.schema_text();
    let g = GCase::json("c08", &text);
    ctx.rep.inc("schemas");
    let tags = vec![c.class.to_string(), if c.mult.as_ref().is_some_and(|m| m.contains('.')) { "mult_fraction".to_string() } else { "mult_int_or_none".to_string() }];
    let empty = c.is_empty();
    let m0 = match matcher(f, &g) {
        Ok(m) if !m.is_error() => Some(m),
        _ => None,
    };
    match (&m0, empty) {
        (None, Some(false)) => {
            let d = json!({"schema": text, "oracle": "schema has satisfying values but was rejected at compile time"});
            let rp = ctx.replay(idx);
            let kind = if c.lo.iter().chain(c.hi.iter()).any(|b| !f64_exact(b)) {
                "bound_magnitude_beyond_f64_integer_precision"
            } else if c.mult.as_ref().is_some_and(|m| m.contains('.')) && !c.integer {
                "satisfiable_rejected_with_fractional_multipleof"
            } else {
                "satisfiable_schema_rejected"
            };
            ctx.rep.violation(kind, &tags, d, rp);
            return;
        }
        (Some(_), Some(true)) => {
            let d = json!({"schema": text, "oracle": "schema has no satisfying value but compiled"});
            let rp = ctx.replay(idx);
            ctx.rep.violation("unsatisfiable_schema_compiled", &tags, d, rp);
            // continue: literals are still informative
        }
        (None, Some(true)) => {
            ctx.rep.inc("unsatisfiable_rejected_ok");
            return;
        }
        (None, None) => {
            ctx.rep.inconclusive("emptiness_undecided");
            return;
        }
        _ => {}
    }
    let m0 = m0.unwrap();
    let mut n_in = 0;
    let mut reported: std::collections::BTreeSet<String> = Default::default();
    for lit in literals(c) {
        let Some(want) = c.admits(&lit) else {
            ctx.rep.inc("literal_undecided");
            continue;
        };
        if c.integer && lit.contains('.') && Dec::parse(&lit).is_some_and(|d| d.is_integer()) {
            // "5.0" under an integer schema: the property text does not decide it
            ctx.rep.inc("literal_unspecified_integer_with_fraction");
            continue;
        }
        let got = accepts(&m0, &lit);
        ctx.rep.inc("literal_probes");
        if want {
            n_in += 1;
        }
        if got != want {
            // classify the failure by a verified pattern; anything unrecognised keeps the generic kind
            let kind = classify(c, &m0, &lit, want);
            if reported.insert(kind.clone()) {
                let d = json!({"schema": text, "literal": lit, "engine_accepts": got, "exact_predicate": want});
                let rp = ctx.replay(idx);
                ctx.rep.violation(&kind, &tags, d, rp);
            }
        }
    }
    if !reported.is_empty() {
        return;
    }
    // never-valid JSON number forms
    for bad in ["05", "00", "-05", "1.", ".5", "+1", "1e", "--1", "0x1"] {
        ctx.rep.inc("malformed_probes");
        if accepts(&m0, bad) {
            let d = json!({"schema": text, "literal": bad});
            let rp = ctx.replay(idx);
            ctx.rep.violation("malformed_number_accepted", &tags, d, rp);
            return;
        }
    }
    if n_in > 0 && (c.lo.is_some() || c.hi.is_some()) {
        ctx.rep.nontrivial(fnv(text.as_bytes()));
    }
    if idx % 997 == 0 {
        ctx.rep.sample(json!({"schema": text, "class": c.class, "literals_probed": literals(c).len(), "literals_inside": n_in}));
    }
}

pub fn run(ctx: &mut Ctx) {
    let v1 = vocab::v1(false);
    let f = factory_noslice(&v1).unwrap();
    let w: i64 = ctx.pick(22, 150);
    let mults_int = ["1", "2", "3", "5", "7", "10"];
    let mults_frac = ["0.5", "0.25", "0.1", "0.01", "2.5"];
    let mut idx: u64 = 0;
    let mut complete = true;
    let mut emit = |ctx: &mut Ctx, c: NumCase, idx: &mut u64, complete: &mut bool| {
        let my = ctx.mine(*idx);
        let i = *idx;
        *idx += 1;
        if !my || !*complete {
            return;
        }
        if ctx.out_of_time() {
            *complete = false;
            return;
        }
        check_case(ctx, i, &c, &f);
    };
    // Block A: exhaustive integer grid
    for a in -w..=w {
        for b in (a - 2).max(-w)..=w {
            // thin out the thorough grid away from the diagonal/edges deterministically
            if ctx.thorough && (b - a) > 40 && (a + b).rem_euclid(7) != 0 {
                continue;
            }
            for ex in 0..4 {
                for integer in [true, false] {
                    let r = (a * 31 + b * 17 + ex as i64).rem_euclid(6) as usize;
                    let mut mo: Vec<Option<String>> = vec![None, Some(mults_int[r].to_string()), Some(mults_frac[r % 5].to_string())];
                    if ctx.thorough {
                        mo.push(Some(mults_int[(r + 3) % 6].to_string()));
                        mo.push(Some(mults_frac[(r + 2) % 5].to_string()));
                    }
                    for m in mo {
                        let c = NumCase { lo: Some(a.to_string()), lo_excl: ex & 1 != 0, hi: Some(b.to_string()), hi_excl: ex & 2 != 0, integer, mult: m, class: "int_grid", extra: vec![] };
                        emit(ctx, c, &mut idx, &mut complete);
                    }
                }
            }
        }
    }
    // one-sided bounds
    for a in -w..=w {
        for ex in [false, true] {
            for integer in [true, false] {
                for (lo, hi) in [(Some(a.to_string()), None), (None, Some(a.to_string()))] {
                    let m = if a % 3 == 0 { Some(mults_int[(a.rem_euclid(6)) as usize].to_string()) } else { None };
                    let c = NumCase { lo, lo_excl: ex, hi, hi_excl: ex, integer, mult: m, class: "one_sided", extra: vec![] };
                    emit(ctx, c, &mut idx, &mut complete);
                }
            }
        }
    }
    // Block A2: inclusive AND exclusive keyword on the same side (ties and near-ties)
    let w2: i64 = ctx.pick(8, 30);
    for a in -w2..=w2 {
        for d in -1..=1i64 {
            for span in [0i64, 1, 2, 5] {
                for integer in [true, false] {
                    for side in 0..4 {
                        let (lo, lo_excl, hi, hi_excl, extra): (Option<String>, bool, Option<String>, bool, Vec<(&'static str, String)>) = match side {
                            0 => (Some((a - span).to_string()), false, Some(a.to_string()), false, vec![("exclusiveMaximum", (a + d).to_string())]),
                            1 => (Some((a - span).to_string()), false, Some(a.to_string()), true, vec![("maximum", (a + d).to_string())]),
                            2 => (Some(a.to_string()), false, Some((a + span).to_string()), false, vec![("exclusiveMinimum", (a + d).to_string())]),
                            _ => (Some(a.to_string()), true, Some((a + span).to_string()), false, vec![("minimum", (a + d).to_string())]),
                        };
                        let m = if (a + span).rem_euclid(4) == 0 { Some("2".to_string()) } else { None };
                        let c = NumCase { lo, lo_excl, hi, hi_excl, integer, mult: m, class: "both_keywords", extra };
                        emit(ctx, c, &mut idx, &mut complete);
                    }
                }
            }
        }
    }
    // Block B: decimal bounds with up to three fraction digits
    let decs = ["-1.5", "-0.001", "0", "0.001", "0.1", "0.3", "0.7", "0.999", "1", "1.25", "2.5", "9.99", "10", "99.5", "100.001", "-12.345", "3.14", "-0.5"];
    for a in decs {
        for b in decs {
            if Dec::parse(a).unwrap().cmp(&Dec::parse(b).unwrap()) == std::cmp::Ordering::Greater {
                continue;
            }
            for ex in 0..4 {
                for integer in [false, true] {
                    for m in [None, Some("0.1"), Some("0.25"), Some("0.01"), Some("1")] {
                        let c = NumCase { lo: Some(a.to_string()), lo_excl: ex & 1 != 0, hi: Some(b.to_string()), hi_excl: ex & 2 != 0, integer, mult: m.map(|s| s.to_string()), class: "dec_grid", extra: vec![] };
                        emit(ctx, c, &mut idx, &mut complete);
                    }
                }
            }
        }
    }
    // Block C: large magnitudes near powers of ten
    for k in 2..=18u32 {
        let p = 10i128.pow(k);
        let pairs = [(p - 1, p + 1), (-(p + 1), -(p - 1)), (p, p * 10 - 1), (p - 3, p), (-p, 3), (p + 1, p + 1)];
        for (a, b) in pairs {
            if b > i64::MAX as i128 || a < i64::MIN as i128 {
                continue;
            }
            for ex in 0..4 {
                for integer in [true, false] {
                    let c = NumCase { lo: Some(a.to_string()), lo_excl: ex & 1 != 0, hi: Some(b.to_string()), hi_excl: ex & 2 != 0, integer, mult: None, class: "pow10", extra: vec![] };
                    emit(ctx, c, &mut idx, &mut complete);
                }
            }
        }
    }
    // Block D: bounds that need 16-17 significant digits (one ulp beside a short decimal)
    ulp_block(ctx, &mut idx);
    ctx.rep.exhaustive = Some(complete);
    ctx.rep.add("max.window", w as u64);
}
