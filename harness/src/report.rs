//! Per-shard result accumulation; serialised to JSON and merged by the python driver.

use serde_json::{json, Value};
use std::collections::{BTreeMap, BTreeSet};

pub struct Report {
    pub prop: String,
    pub counters: BTreeMap<String, u64>,
    pub distinct: BTreeSet<u64>,
    pub samples: Vec<Value>,
    pub violations: Vec<Value>,
    pub notes: BTreeSet<String>,
    pub max_samples: usize,
    pub max_violations: usize,
    pub max_per_kind: u64,
    pub exhaustive: Option<bool>,
    /// named lists of case indices, concatenated across shards by the driver
    pub lists: BTreeMap<String, Vec<u64>>,
}

impl Report {
    pub fn new(prop: &str) -> Self {
        Report {
            prop: prop.to_string(),
            counters: BTreeMap::new(),
            distinct: BTreeSet::new(),
            samples: vec![],
            violations: vec![],
            notes: BTreeSet::new(),
            max_samples: 6,
            max_violations: std::env::var("LLGV_MAX_VIOL").ok().and_then(|x| x.parse().ok()).unwrap_or(400),
            max_per_kind: std::env::var("LLGV_MAX_PER_KIND").ok().and_then(|x| x.parse().ok()).unwrap_or(4),
            exhaustive: None,
            lists: BTreeMap::new(),
        }
    }
    pub fn add(&mut self, key: &str, n: u64) {
        *self.counters.entry(key.to_string()).or_insert(0) += n;
    }
    pub fn inc(&mut self, key: &str) {
        self.add(key, 1);
    }
    pub fn max(&mut self, key: &str, n: u64) {
        let e = self.counters.entry(key.to_string()).or_insert(0);
        if n > *e {
            *e = n;
        }
    }
    pub fn get(&self, key: &str) -> u64 {
        *self.counters.get(key).unwrap_or(&0)
    }
    /// record a distinct non-trivial case by hash
    pub fn nontrivial(&mut self, h: u64) {
        if self.distinct.len() < 400_000 {
            self.distinct.insert(h);
        }
    }
    pub fn sample(&mut self, v: Value) {
        if self.samples.len() < self.max_samples {
            self.samples.push(v);
        }
    }
    pub fn list(&mut self, name: &str, idx: u64) {
        let l = self.lists.entry(name.to_string()).or_default();
        if l.len() < 200_000 {
            l.push(idx);
        }
    }
    pub fn note(&mut self, s: &str) {
        // evidence files must stay small: a worker keeps its first 60 distinct notes and counts the rest
        if self.notes.len() >= 60 {
            self.inc("notes_dropped");
            return;
        }
        self.notes.insert(s.to_string());
    }
    pub fn n_violations(&self) -> usize {
        self.get("violations") as usize
    }
    /// `kind`: short stable identifier of the oracle that fired; `tags`: generator class tags;
    /// `replay`: everything needed to re-execute the case.
    pub fn violation(&mut self, kind: &str, tags: &[String], detail: Value, replay: Value) {
        self.inc("violations");
        self.inc(&format!("violations.{kind}"));
        // stratified: keep a few witnesses of every kind so that a frequent (known) kind can never
        // crowd out a rare fresh one
        let per_kind = self.get(&format!("violations.{kind}"));
        if per_kind <= self.max_per_kind && self.violations.len() < self.max_violations {
            self.violations.push(json!({
                "property": self.prop,
                "kind": kind,
                "tags": tags,
                "detail": detail,
                "replay": replay,
            }));
        }
    }
    pub fn inconclusive(&mut self, why: &str) {
        self.inc("inconclusive");
        self.inc(&format!("inconclusive.{why}"));
    }
    pub fn to_json(&self) -> Value {
        json!({
            "property": self.prop,
            "counters": self.counters,
            "distinct": self.distinct.iter().map(|h| format!("{h:016x}")).collect::<Vec<_>>(),
            "samples": self.samples,
            "violations": self.violations,
            "notes": self.notes,
            "exhaustive": self.exhaustive,
            "lists": self.lists,
        })
    }
}

pub fn bytes_dbg(b: &[u8]) -> String {
    let mut s = String::new();
    for &c in b {
        match c {
            b'\\' => s.push_str("\\\\"),
            0x20..=0x7e => s.push(c as char),
            b'\n' => s.push_str("\\n"),
            _ => s.push_str(&format!("\\x{c:02x}")),
        }
    }
    s
}
