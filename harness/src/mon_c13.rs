//! C13: fast-forward bytes/tokens are genuinely forced and neutral; prompt processing neither
//! loses nor invents text.

use crate::cmp::fresh_replay;
use crate::ctx::Ctx;
use crate::engine::*;
use crate::pool::{self, VKind};
use crate::report::bytes_dbg;
use crate::rng::{fnv, Rng};
use crate::vocab::{self, Vocab};
use crate::walker;
use llguidance::{Constraint, Matcher, ParserFactory};
use serde_json::json;

fn ff_grammars(rng: &mut Rng) -> GCase {
    match rng.below(10) {
        0 => GCase::json("ff_fixed", r#"{"type":"object","properties":{"name":{"type":"string"},"age":{"type":"integer"},"address":{"type":"object","properties":{"city":{"const":"Seattle"},"zip":{"type":"integer"}},"required":["city","zip"],"additionalProperties":false}},"required":["name","age","address"],"additionalProperties":false,"x-guidance":{"whitespace_flexible":false}}"#),
        1 => GCase::json("ff_enum_prefix", r#"{"type":"object","properties":{"color":{"enum":["red","redder","reddest","green","grey"]},"kind":{"const":"fixed value"}},"required":["color","kind"],"additionalProperties":false,"x-guidance":{"whitespace_flexible":false}}"#),
        2 => GCase::json("ff_const", r#"{"const":{"a":[1,2,{"b":"long constant string here"}],"c":null}}"#),
        3 => GCase::json("ff_flex", r#"{"type":"object","properties":{"id":{"type":"integer"},"tags":{"type":"array","items":{"enum":["alpha","alphabet","beta"]},"minItems":1}},"required":["id","tags"],"additionalProperties":false}"#),
        4 => GCase::lark("ff_kw", "start: \"BEGIN TRANSACTION;\" stmt+ \"COMMIT;\"\nstmt: \" UPDATE \" NAME \" SET \" NAME \"=\" NUM \";\"\nNAME: /[a-z]+/\nNUM: /[0-9]+/\n"),
        5 => GCase::lark("ff_alt", "start: \"The answer is: \" (\"yes, definitely\" | \"yes, probably\" | \"no way\") \".\"\n"),
        6 => GCase::json("ff_sep", r#"{"type":"object","properties":{"x":{"type":"number"},"y":{"type":"number"}},"required":["x","y"],"additionalProperties":false,"x-guidance":{"whitespace_flexible":false,"item_separator":", ","key_separator":": "}}"#),
        7 => GCase::lark("ff_unicode", "start: \"caf\u{e9} \u{65e5}\u{672c}\u{8a9e}: \" /[a-z]+/ \" \u{1f422}\u{1f422} end\"\n"),
        8 => GCase::json("ff_req_order", r#"{"type":"object","properties":{"first_name":{"type":"string","maxLength":5},"first_nick":{"type":"string","maxLength":5},"last":{"type":"boolean"}},"required":["first_name","last"],"additionalProperties":false,"x-guidance":{"whitespace_flexible":false}}"#),
        _ => GCase::lark("ff_rep", "start: \"ab\"{3} \"-\" (\"cd\" | \"ce\"){2} \"!!\"\n"),
    }
    .tag("ff_family")
}

/// V1 no-forcing byte engine fed with `bytes`; None if a byte is rejected or bytes contain 0xFF
fn byte_engine(f1: &ParserFactory, g: &GCase, bytes: &[u8]) -> Option<Matcher> {
    let mut m = matcher(f1, g).ok()?;
    for &b in bytes {
        if b == 0xFF || m.consume_token(b as u32).is_err() {
            return None;
        }
    }
    Some(m)
}

/// the whole byte sequence is accepted by a single-byte engine with all limits relaxed => a refusal by the
/// ordinary byte engine was a resource limit, not a verdict
fn bytes_ok_relaxed(v1: &Vocab, g: &GCase, all: &[u8]) -> bool {
    match all.split_last() {
        Some((last, pre)) => crate::tp::accepted_with_relaxed_limits(v1, Some(vec![]), g, &pre.iter().map(|&b| b as u32).collect::<Vec<_>>(), *last as u32),
        None => true,
    }
}

struct Env<'a> {
    g: &'a GCase,
    v: &'a Vocab,
    v1: &'a Vocab,
    f: &'a ParserFactory,
    f1: &'a ParserFactory,
}

/// checks (a) and (b) at the state `m` (history `hist`); returns violation
fn check_ff_state(ctx: &mut Ctx, rng: &mut Rng, e: &Env, m: &mut Matcher, hist: &[u32]) -> Result<(), (String, serde_json::Value)> {
    let bytes = e.v.trie().decode_raw(hist);
    if bytes.contains(&0xFF) {
        return Ok(());
    }
    let ffb = m.deep_clone().compute_ff_bytes();
    ctx.rep.inc("states");
    if !ffb.is_empty() {
        ctx.rep.inc("states_with_forced_bytes");
        ctx.rep.add("forced_bytes_checked", ffb.len() as u64);
        // (a) every forced byte is the only byte allowed, and the state before it is not accepting
        let Some(mut e1) = byte_engine(e.f1, e.g, &bytes) else {
            if bytes_ok_relaxed(e.v1, e.g, &bytes) {
                ctx.rep.inconclusive("resource_stop");
                return Ok(());
            }
            return Err(("history_rejected_by_byte_engine".into(), json!({"bytes": bytes_dbg(&bytes)})));
        };
        for (i, &b) in ffb.iter().enumerate() {
            if b == 0xFF {
                return Ok(()); // forced special token: outside the byte-level comparison
            }
            let mask = match e1.compute_mask() {
                Ok(x) => x,
                Err(_) => {
                    let h: Vec<u32> = bytes.iter().chain(ffb[..i].iter()).map(|&x| x as u32).collect();
                    if resource_stop_on_replay(e.f1, e.g, &h) {
                        ctx.rep.inconclusive("resource_stop");
                        return Ok(());
                    }
                    return Err(("byte_engine_mask_error_inside_forced".into(), json!({"forced": bytes_dbg(&ffb), "pos": i})));
                }
            };
            let allowed = mask_list(&mask, e.v1.n());
            if allowed != vec![b as u32] {
                return Err((
                    "forced_byte_not_unique".into(),
                    json!({"forced": bytes_dbg(&ffb), "pos": i, "forced_byte": b, "byte_engine_allows": allowed.iter().take(12).collect::<Vec<_>>()}),
                ));
            }
            if e1.consume_token(b as u32).is_err() {
                let mut all = bytes.clone();
                all.extend_from_slice(&ffb[..=i]);
                if bytes_ok_relaxed(e.v1, e.g, &all) {
                    ctx.rep.inconclusive("resource_stop");
                    return Ok(());
                }
                return Err(("forced_byte_rejected".into(), json!({"forced": bytes_dbg(&ffb), "pos": i})));
            }
        }
        ctx.rep.nontrivial(e.g.hash() ^ fnv(&bytes).rotate_left(9) ^ fnv(e.v.name.as_bytes()));
    }
    // (b) ff tokens (canonical tokenizers only)
    if e.v.canonical {
        let fft = m.deep_clone().compute_ff_tokens();
        if !fft.is_empty() {
            ctx.rep.inc("states_with_ff_tokens");
            let dec = e.v.trie().decode_raw(&fft);
            if !ffb.starts_with(&dec) {
                return Err(("ff_tokens_not_prefix_of_ff_bytes".into(), json!({"ff_tokens": fft, "decoded": bytes_dbg(&dec), "ff_bytes": bytes_dbg(&ffb)})));
            }
            let mut t = m.deep_clone();
            for (i, &tok) in fft.iter().enumerate() {
                if t.consume_token(tok).is_err() {
                    let mut h = hist.to_vec();
                    h.extend_from_slice(&fft[..i]);
                    if crate::tp::accepted_with_relaxed_limits(e.v, None, e.g, &h, tok) {
                        ctx.rep.inconclusive("resource_stop");
                        return Ok(());
                    }
                    return Err(("ff_token_rejected".into(), json!({"ff_tokens": fft, "index": i})));
                }
            }
            // neutrality: after the ff tokens the engine accepts exactly what the byte engine accepts
            let mut all = bytes.clone();
            all.extend_from_slice(&dec);
            let Some(mut e1) = byte_engine(e.f1, e.g, &all) else {
                if bytes_ok_relaxed(e.v1, e.g, &all) {
                    ctx.rep.inconclusive("resource_stop");
                    return Ok(());
                }
                return Err(("ff_tokens_bytes_rejected_by_byte_engine".into(), json!({"bytes": bytes_dbg(&all)})));
            };
            let (ta, ea) = (t.is_accepting().ok(), e1.is_accepting().ok());
            if !t.is_stopped() && ta != ea {
                return Err(("after_ff_accepting_differs".into(), json!({"tested": ta, "byte_engine": ea, "ff_tokens": fft})));
            }
            if !t.is_stopped() && !e1.is_stopped() {
                if let Ok(m1) = e1.compute_mask() {
                    let mut tv = t.deep_clone();
                    for b in 0..=254u8 {
                        let Some(tok) = e.v.byte_token(b) else { continue };
                        let val = tv.validate_tokens(&[tok]).map(|k| k == 1).unwrap_or(false);
                        ctx.rep.inc("after_ff_byte_checks");
                        if val != m1.is_allowed(b as u32) {
                            return Err(("after_ff_next_byte_differs".into(), json!({"byte": b, "tested_validate": val, "byte_engine_mask": m1.is_allowed(b as u32), "ff_tokens": fft, "bytes_so_far": bytes_dbg(&all)})));
                        }
                    }
                }
            }
            let _ = rng;
        }
    }
    Ok(())
}

fn case_walk(ctx: &mut Ctx, idx: u64, rng: &mut Rng, e: &Env) {
    let Ok(mut m) = matcher(e.f, e.g) else {
        ctx.rep.inc("compile_errors");
        return;
    };
    if m.is_error() {
        ctx.rep.inc("compile_errors");
        return;
    }
    ctx.rep.inc("cases");
    let steps = ctx.pick(20, 40);
    let mut hist = vec![];
    for step in 0..steps {
        if m.is_stopped() {
            break;
        }
        if let Err((kind, detail)) = check_ff_state(ctx, rng, e, &mut m, &hist) {
            let d = json!({"case": pool::describe(ctx, e.g, e.v), "history": hist, "history_bytes": bytes_dbg(&e.v.trie().decode_raw(&hist)), "oracle": detail});
            let rp = ctx.replay(idx);
            ctx.rep.violation(&kind, &e.g.tags, d, rp);
            return;
        }
        // advance: sometimes take the ff tokens, sometimes sample
        if e.v.canonical && rng.chance(1, 2) {
            let ff = m.consume_ff_tokens();
            if !ff.is_empty() {
                hist.extend(ff);
                continue;
            }
        }
        let Ok(mask) = m.compute_mask() else { break };
        let pol = walker::policy_for_step(rng, step, steps);
        let Some(t) = walker::choose(rng, &mask, e.v, pol) else { break };
        if m.consume_token(t).is_err() {
            break;
        }
        hist.push(t);
    }
    if rng.chance(1, 20) {
        ctx.rep.sample(json!({"workload": "walk", "grammar": e.g.name, "vocab": e.v.name, "history_bytes": bytes_dbg(&e.v.trie().decode_raw(&hist)).chars().take(160).collect::<String>()}));
    }
}

/// (c) Constraint with ff_tokens capability
fn case_constraint(ctx: &mut Ctx, idx: u64, rng: &mut Rng, e: &Env) {
    if !e.v.canonical {
        return;
    }
    let Ok(fc) = factory(e.v, &FactoryOpts { ff_tokens: true, ..Default::default() }) else { return };
    let Ok(p) = parser(&fc, e.g) else { return };
    let mut c = Constraint::new(p);
    ctx.rep.inc("constraint_cases");
    let mut hist: Vec<u32> = vec![];
    for _ in 0..ctx.pick(25, 50) {
        let r = match c.compute_mask() {
            Ok(r) => r.clone(),
            Err(_) => break,
        };
        if r.is_stop() {
            break;
        }
        let sampled = if let Some(mask) = &r.sample_mask {
            let Some(t) = walker::choose(rng, mask, e.v, walker::Policy::Uniform) else { break };
            Some(t)
        } else {
            None
        };
        // reference: what is forced after committing the sampled token
        let cr = match c.commit_token(sampled) {
            Ok(x) => x,
            Err(_) => break,
        };
        if cr.stop {
            break;
        }
        ctx.rep.inc("constraint_commits");
        let toks = cr.ff_tokens.clone();
        if cr.backtrack != 0 {
            ctx.rep.inc("constraint_backtrack_seen");
            break;
        }
        if let Some(s) = sampled {
            if toks.first() != Some(&s) {
                let d = json!({"case": pool::describe(ctx, e.g, e.v), "history": hist, "sampled": s, "returned": toks});
                let rp = ctx.replay(idx);
                ctx.rep.violation("commit_result_does_not_start_with_sampled", &e.g.tags, d, rp);
                return;
            }
        }
        // forced part must be exactly what a reference matcher reports as ff tokens after the sampled token
        let mut hs = hist.clone();
        if let Some(s) = sampled {
            hs.push(s);
        }
        if let Some(mut fr) = fresh_replay(e.f, e.g, &hs) {
            let forced: Vec<u32> = toks.iter().skip(sampled.is_some() as usize).copied().collect();
            if !forced.is_empty() {
                ctx.rep.inc("constraint_ff_token_batches");
                let ffb = fr.deep_clone().compute_ff_bytes();
                let dec = e.v.trie().decode_raw(&forced);
                if !ffb.starts_with(&dec) && !dec.contains(&0xFF) {
                    let d = json!({"case": pool::describe(ctx, e.g, e.v), "history": hs, "forced_tokens": forced, "decoded": bytes_dbg(&dec), "reference_ff_bytes": bytes_dbg(&ffb)});
                    let rp = ctx.replay(idx);
                    ctx.rep.violation("constraint_ff_tokens_not_forced", &e.g.tags, d, rp);
                    return;
                }
                for &t in &forced {
                    if fr.consume_token(t).is_err() {
                        let d = json!({"case": pool::describe(ctx, e.g, e.v), "history": hs, "forced_tokens": forced});
                        let rp = ctx.replay(idx);
                        ctx.rep.violation("constraint_ff_token_rejected_by_reference", &e.g.tags, d, rp);
                        return;
                    }
                }
            }
        }
        hist.extend(toks);
    }
}

/// (d) prompt processing: decode(P') ++ pending == decode(P) ++ F0
fn case_prompt(ctx: &mut Ctx, idx: u64, rng: &mut Rng, e: &Env) {
    if !e.v.canonical {
        return;
    }
    let Ok(mut m0) = matcher(e.f, e.g) else { return };
    let f0 = m0.compute_ff_bytes();
    // prompt text: generic text, optionally ending in a fragment that is a prefix of the grammar's first bytes
    let texts = vocab::GENERIC_TEXT;
    let mut text: Vec<u8> = rng.pick(texts).as_bytes()[..].to_vec();
    text.truncate(1 + rng.below(text.len().min(40)));
    while std::str::from_utf8(&text).is_err() {
        text.pop();
    }
    if rng.chance(1, 2) {
        text.push(b' ');
    }
    if rng.chance(1, 2) && !f0.is_empty() && !f0.contains(&0xFF) {
        // the user already typed the beginning of the forced text
        let k = 1 + rng.below(f0.len());
        let mut frag = f0[..k].to_vec();
        while std::str::from_utf8(&frag).is_err() {
            frag.pop();
        }
        let _ = frag; // healing of already-typed grammar text is not part of the claim; keep prompts independent
    }
    let prompt = e.v.env.tokenize_bytes(&text);
    let Ok(mut p) = parser(e.f, e.g) else { return };
    let pb = e.v.trie().decode_raw(&prompt);
    let res = p.process_prompt(prompt.clone());
    let pending = p.force_bytes();
    let mut lhs = e.v.trie().decode_raw(&res);
    lhs.extend_from_slice(&pending);
    let mut rhs = pb.clone();
    rhs.extend_from_slice(&f0);
    ctx.rep.inc("prompt_cases");
    if res != prompt {
        ctx.rep.inc("prompt_cases_healed");
        ctx.rep.nontrivial(e.g.hash() ^ fnv(&text).rotate_left(21) ^ fnv(e.v.name.as_bytes()));
    }
    if lhs != rhs {
        let d = json!({"case": pool::describe(ctx, e.g, e.v), "prompt_text": bytes_dbg(&text), "prompt": prompt, "returned_prompt": res,
            "returned_plus_pending": bytes_dbg(&lhs), "prompt_plus_forced": bytes_dbg(&rhs)});
        let rp = ctx.replay(idx);
        ctx.rep.violation("prompt_text_lost_or_invented", &e.g.tags, d, rp);
        return;
    }
    // and generation continues consistently: the first mask after the prompt equals that of a matcher
    // whose forced bytes are still pending
    // (the Matcher folds failures into InternalError: keep a bare parser to see a resource-limit stop)
    let mut bare = p.deep_clone();
    let mut mp = Matcher::new(Ok(p));
    let a = mp.compute_mask().ok().map(|x| mask_list(&x, e.v.n()));
    let resource = a.is_none() && {
        use llguidance::api::StopReason::*;
        let _ = std::panic::catch_unwind(std::panic::AssertUnwindSafe(|| bare.compute_mask().is_ok()));
        matches!(bare.stop_reason(), LexerTooComplex | ParserTooComplex | MaxTokensTotal | MaxTokensParser)
    };
    if a.is_none() && !resource && !f0.contains(&0xFF) {
        let d = json!({"case": pool::describe(ctx, e.g, e.v), "prompt_text": bytes_dbg(&text), "returned_prompt": res, "error": mp.get_error()});
        let rp = ctx.replay(idx);
        ctx.rep.violation("mask_error_after_prompt", &e.g.tags, d, rp);
    }
}

fn run_case(ctx: &mut Ctx, idx: u64) {
    let mut rng = ctx.case_rng(idx);
    let g = match rng.below(10) {
        0..=4 => ff_grammars(&mut rng),
        5..=6 => {
            let i = rng.below(pool::n_corpus() as usize) as u64;
            pool::grammar(&mut rng, i)
        }
        _ => pool::grammar(&mut rng, 1_000_000 + idx),
    };
    if g.has_tag("special_token_ref") {
        return;
    }
    let vk = match rng.below(8) {
        0 => VKind::V1,
        1 => VKind::V1c,
        2 => VKind::Vsyn,
        3 | 4 => VKind::VsynC,
        5 => VKind::Bpe(0),
        _ => VKind::Bpe(1),
    };
    let v = pool::make_vocab(&mut rng, &g, vk);
    let v1 = vocab::v1(false);
    let Ok(f) = factory(&v, &FactoryOpts::default()) else { return };
    let Ok(f1) = factory_noslice(&v1) else { return };
    let e = Env { g: &g, v: &v, v1: &v1, f: &f, f1: &f1 };
    match rng.below(4) {
        0 | 1 => case_walk(ctx, idx, &mut rng, &e),
        2 => case_constraint(ctx, idx, &mut rng, &e),
        _ => case_prompt(ctx, idx, &mut rng, &e),
    }
}

pub fn run(ctx: &mut Ctx) {
    let n_cases = ctx.pick(15000, 700000);
    for idx in 0..n_cases {
        if !ctx.mine(idx) {
            continue;
        }
        if ctx.out_of_time() {
            break;
        }
        run_case(ctx, idx);
    }
}
