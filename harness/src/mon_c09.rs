//! C09: repetition counts and length bounds are exact. Exhaustive over 0<=m<=n<=N at rule,
//! terminal and regex level, and over JSON minItems/maxItems, minLength/maxLength,
//! min/maxProperties; every count 0..n+3 is probed on the single-byte vocabulary.

use crate::ctx::Ctx;
use crate::engine::*;
use crate::report::bytes_dbg;
use crate::rng::{fnv, Rng};
use crate::vocab;
use llguidance::{Matcher, ParserFactory};
use serde_json::json;

#[derive(Clone, Debug)]
struct Spec {
    name: String,
    grammar: GCase,
    /// bytes before the repeated part
    open: Vec<u8>,
    /// closing bytes (empty = no closer: acceptance judged by is_accepting)
    close: Vec<u8>,
    /// element number i (0-based) as bytes, given the current count (separator included where needed)
    elems: Vec<Vec<u8>>,
    m: usize,
    /// None = unbounded
    n: Option<usize>,
}

fn feed(m: &mut Matcher, bytes: &[u8]) -> Result<(), usize> {
    for (i, &b) in bytes.iter().enumerate() {
        if m.is_stopped() || m.consume_token(b as u32).is_err() {
            return Err(i);
        }
    }
    Ok(())
}

fn allows(m: &mut Matcher, b: u8) -> Option<bool> {
    if m.is_stopped() {
        return Some(false);
    }
    m.compute_mask().ok().map(|x| x.is_allowed(b as u32))
}

/// walk counts 0..=limit; returns Err(kind, detail)
fn probe(spec: &Spec, f: &ParserFactory, rep: &mut crate::report::Report) -> Result<(), (String, serde_json::Value)> {
    let mut m = match matcher(f, &spec.grammar) {
        Ok(m) if !m.is_error() => m,
        Ok(m) => return Err(("grammar_rejected".into(), json!({"error": m.get_error()}))),
        Err(e) => return Err(("grammar_rejected".into(), json!({"error": e.to_string().lines().next()}))),
    };
    if feed(&mut m, &spec.open).is_err() {
        return Err(("opening_rejected".into(), json!({"open": bytes_dbg(&spec.open)})));
    }
    let limit = spec.n.map(|n| n + 3).unwrap_or(spec.m + 6).min(spec.elems.len());
    let mut so_far = spec.open.clone();
    for c in 0..=limit {
        let in_range = c >= spec.m && spec.n.map_or(true, |n| c <= n);
        let may_continue = spec.n.map_or(true, |n| c < n);
        rep.inc("count_probes");
        // (1) completion at count c
        if spec.close.is_empty() {
            let acc = if m.is_stopped() { m.stop_reason().is_ok() } else { m.is_accepting().unwrap_or(false) };
            if acc != in_range {
                return Err(("count_acceptance_wrong".into(), json!({"count": c, "accepted": acc, "expected": in_range, "so_far": bytes_dbg(&so_far)})));
            }
        } else {
            let mut k = m.clone();
            let closes = allows(&mut k, spec.close[0]);
            let Some(closes) = closes else {
                if resource_stop_on_replay(f, &spec.grammar, &so_far.iter().map(|&x| x as u32).collect::<Vec<_>>()) {
                    return Err(("resource_stop".into(), json!({})));
                }
                return Err(("mask_error".into(), json!({"count": c, "so_far": bytes_dbg(&so_far)})));
            };
            if closes != in_range {
                return Err(("count_acceptance_wrong".into(), json!({"count": c, "closer_allowed": closes, "expected": in_range, "so_far": bytes_dbg(&so_far)})));
            }
            if closes {
                let ok = feed(&mut k, &spec.close).is_ok() && (k.is_stopped() && k.stop_reason().is_ok() || k.is_accepting().unwrap_or(false));
                if !ok {
                    return Err(("complete_string_not_accepted".into(), json!({"count": c, "so_far": bytes_dbg(&so_far)})));
                }
            }
        }
        // (2) continuation at count c
        if c >= spec.elems.len() {
            break;
        }
        let el = &spec.elems[c];
        let mut k = m.clone();
        let cont = allows(&mut k, el[0]);
        let Some(cont) = cont else {
            if !may_continue {
                break;
            }
            if resource_stop_on_replay(f, &spec.grammar, &so_far.iter().map(|&x| x as u32).collect::<Vec<_>>()) {
                return Err(("resource_stop".into(), json!({})));
            }
            return Err(("mask_error".into(), json!({"count": c, "so_far": bytes_dbg(&so_far)})));
        };
        if cont != may_continue {
            return Err(("count_continuation_wrong".into(), json!({"count": c, "next_element_allowed": cont, "expected": may_continue, "so_far": bytes_dbg(&so_far), "element": bytes_dbg(el)})));
        }
        if !cont {
            break;
        }
        if let Err(i) = feed(&mut m, el) {
            // a refusal caused by a documented resource limit (highly ambiguous repetitions fill the Earley rows) is not a verdict
            let mut h: Vec<u32> = so_far.iter().map(|&x| x as u32).collect();
            h.extend(el[..=i.min(el.len() - 1)].iter().map(|&x| x as u32));
            let last = h.pop().unwrap_or(0);
            if resource_stop_on_replay(f, &spec.grammar, &h) || crate::tp::accepted_with_relaxed_limits(&vocab::v1(false), Some(vec![]), &spec.grammar, &h, last) {
                return Err(("resource_stop".into(), json!({})));
            }
            return Err(("element_rejected_midway".into(), json!({"count": c, "element": bytes_dbg(el), "at_byte": i, "so_far": bytes_dbg(&so_far)})));
        }
        so_far.extend_from_slice(el);
    }
    Ok(())
}

fn quant(m: usize, n: Option<usize>, style: usize) -> String {
    match (m, n, style % 2) {
        (0, None, 0) => "*".into(),
        (1, None, 0) => "+".into(),
        (0, Some(1), 0) => "?".into(),
        (m, None, _) => format!("{{{m},}}"),
        (m, Some(n), _) if m == n && style % 3 == 0 => format!("{{{m}}}"),
        (m, Some(n), _) => format!("{{{m},{n}}}"),
    }
}

fn lark_specs(m: usize, n: Option<usize>, rng: &mut Rng) -> Vec<Spec> {
    let mut out = vec![];
    let total = n.map(|n| n + 4).unwrap_or(m + 7);
    let elems: Vec<(&str, &str, Vec<Vec<u8>>)> = vec![
        ("\"a\"", "a", (0..total).map(|_| b"a".to_vec()).collect()),
        ("\"ab\"", "ab", (0..total).map(|_| b"ab".to_vec()).collect()),
        ("(\"a\"|\"b\")", "(a|b)", (0..total).map(|_| if rng.chance(1, 2) { b"a".to_vec() } else { b"b".to_vec() }).collect()),
        ("/[a-c]/", "[a-c]", (0..total).map(|_| vec![b'a' + rng.below(3) as u8]).collect()),
    ];
    for (ei, (lark_el, rx_el, seq)) in elems.iter().enumerate() {
        let q = quant(m, n, ei + m);
        // rule level, with and without delimiters
        out.push(Spec { name: format!("rule:{lark_el}{q}"), grammar: GCase::lark("c09", &format!("start: \"<\" x{q} \">\"\nx: {lark_el}\n")), open: b"<".to_vec(), close: b">".to_vec(), elems: seq.clone(), m, n });
        out.push(Spec { name: format!("rule-inline:{lark_el}{q}"), grammar: GCase::lark("c09", &format!("start: {lark_el}{q}\n")), open: vec![], close: vec![], elems: seq.clone(), m, n });
        // terminal level
        out.push(Spec { name: format!("terminal:{lark_el}{q}"), grammar: GCase::lark("c09", &format!("start: \"<\" T \">\"\nT: {lark_el}{q}\n")), open: b"<".to_vec(), close: b">".to_vec(), elems: seq.clone(), m, n });
        // regex level
        let rq = quant(m, n, 1);
        let rx_atom = if rx_el.len() > 1 && !rx_el.starts_with('[') && !rx_el.starts_with('(') { format!("(?:{rx_el})") } else { rx_el.to_string() };
        out.push(Spec { name: format!("regex:{rx_el}{rq}"), grammar: GCase::lark("c09", &format!("start: /<{rx_atom}{rq}>/\n")), open: b"<".to_vec(), close: b">".to_vec(), elems: seq.clone(), m, n });
        if ei % 2 == 0 {
            out.push(Spec { name: format!("from_regex:{rx_el}{rq}"), grammar: GCase::regex("c09", &format!("{rx_atom}{rq}")), open: vec![], close: vec![], elems: seq.clone(), m, n });
        }
    }
    // elements that can themselves be empty: with x{m,n} over such an element every size from 0 up to n times the
    // element's longest form is derivable (empty copies fill up to the lower bound), whatever m is
    let q = quant(m, n, 1);
    for (lark_el, unit, per) in [("\"a\"?", b"a".to_vec(), 1usize), ("[\"ab\"]", b"ab".to_vec(), 1), ("\"a\"{0,2}", b"a".to_vec(), 2)] {
        let n_eff = n.map(|n| n * per);
        let total = n_eff.map(|n| n + 4).unwrap_or(m + 7);
        let seq: Vec<Vec<u8>> = (0..total).map(|_| unit.clone()).collect();
        out.push(Spec { name: format!("rule-nullable-element:({lark_el}){q}"), grammar: GCase::lark("c09", &format!("start: \"<\" x{q} \">\"\nx: {lark_el}\n")), open: b"<".to_vec(), close: b">".to_vec(), elems: seq.clone(), m: 0, n: n_eff });
        if m % 2 == 0 {
            // the same repetition used from two places
            out.push(Spec { name: format!("rule-nullable-element-shared:({lark_el}){q}"), grammar: GCase::lark("c09", &format!("start: \"<\" r \">\" | \"(\" r \")\"\nr: x{q}\nx: {lark_el}\n")), open: b"<".to_vec(), close: b">".to_vec(), elems: seq, m: 0, n: n_eff });
        }
    }
    out
}

fn json_specs(m: usize, n: Option<usize>, rng: &mut Rng) -> Vec<Spec> {
    let mut out = vec![];
    let total = n.map(|n| n + 4).unwrap_or(m + 7);
    let bounds = |lo: &str, hi: &str| {
        let mut s = String::new();
        if m > 0 || rng_free_bool(m) {
            s.push_str(&format!(",\"{lo}\":{m}"));
        }
        if let Some(n) = n {
            s.push_str(&format!(",\"{hi}\":{n}"));
        }
        s
    };
    // arrays
    let arr_el: Vec<Vec<u8>> = (0..total).map(|i| if i == 0 { b"1".to_vec() } else { b",1".to_vec() }).collect();
    out.push(Spec { name: "json:items".into(), grammar: GCase::json("c09", &format!("{{\"type\":\"array\",\"items\":{{\"type\":\"integer\"}}{}}}", bounds("minItems", "maxItems"))), open: b"[".to_vec(), close: b"]".to_vec(), elems: arr_el.clone(), m, n });
    let arr_el2: Vec<Vec<u8>> = (0..total).map(|i| match i { 0 => b"\"p\"".to_vec(), 1 => b",true".to_vec(), _ => b",null".to_vec() }).collect();
    out.push(Spec { name: "json:prefixItems+items".into(), grammar: GCase::json("c09", &format!("{{\"type\":\"array\",\"prefixItems\":[{{\"type\":\"string\"}},{{\"type\":\"boolean\"}}],\"items\":{{\"type\":\"null\"}}{}}}", bounds("minItems", "maxItems"))), open: b"[".to_vec(), close: b"]".to_vec(), elems: arr_el2, m, n });
    // strings: characters of different byte widths and escapes each count as one
    let chars: [&[u8]; 7] = [b"a", "\u{e9}".as_bytes(), "\u{1f422}".as_bytes(), b"\\n", b"\\\"", b"\\\\", "\u{65e5}".as_bytes()];
    let str_el: Vec<Vec<u8>> = (0..total).map(|_| chars[rng.below(chars.len())].to_vec()).collect();
    out.push(Spec { name: "json:length".into(), grammar: GCase::json("c09", &format!("{{\"type\":\"string\"{}}}", bounds("minLength", "maxLength"))), open: b"\"".to_vec(), close: b"\"".to_vec(), elems: str_el.clone(), m, n });
    let ascii_el: Vec<Vec<u8>> = (0..total).map(|_| vec![b'a' + rng.below(26) as u8]).collect();
    out.push(Spec { name: "json:length+pattern".into(), grammar: GCase::json("c09", &format!("{{\"type\":\"string\",\"pattern\":\"^[a-z]*$\"{}}}", bounds("minLength", "maxLength"))), open: b"\"".to_vec(), close: b"\"".to_vec(), elems: ascii_el, m, n });
    // \uXXXX for printable characters with the option: counts as one; a surrogate pair counts as one
    let uni: [&[u8]; 4] = [b"\\u00e9", b"\\ud83d\\udc22", b"x", "\u{e9}".as_bytes()];
    let uni_el: Vec<Vec<u8>> = (0..total).map(|_| uni[rng.below(uni.len())].to_vec()).collect();
    out.push(Spec { name: "json:length+unicode-escapes".into(), grammar: GCase::json("c09", &format!("{{\"type\":\"string\"{},\"x-guidance\":{{\"json_allow_general_unicode_escapes\":true}}}}", bounds("minLength", "maxLength"))), open: b"\"".to_vec(), close: b"\"".to_vec(), elems: uni_el, m, n });
    // objects used as maps
    let obj_el: Vec<Vec<u8>> = (0..total).map(|i| format!("{}\"k{i}\":1", if i == 0 { "" } else { "," }).into_bytes()).collect();
    out.push(Spec { name: "json:properties".into(), grammar: GCase::json("c09", &format!("{{\"type\":\"object\",\"additionalProperties\":{{\"type\":\"integer\"}}{}}}", bounds("minProperties", "maxProperties"))), open: b"{".to_vec(), close: b"}".to_vec(), elems: obj_el, m, n });
    out
}

fn rng_free_bool(m: usize) -> bool {
    m % 2 == 0
}

pub fn run(ctx: &mut Ctx) {
    let v1 = vocab::v1(false);
    let f = factory_noslice(&v1).unwrap();
    let f_sliced = factory(&v1, &FactoryOpts::default()).unwrap();
    let nl = ctx.pick(26, 66);
    let nj = ctx.pick(18, 50);
    // enumerate all (m, n) pairs; idx = pair index
    let mut pairs: Vec<(usize, Option<usize>, bool)> = vec![];
    for n in 0..=nl {
        for m in 0..=n {
            pairs.push((m, Some(n), false));
        }
    }
    for m in 0..=nl.min(14) {
        pairs.push((m, None, false));
    }
    for n in 0..=nj {
        for m in 0..=n {
            pairs.push((m, Some(n), true));
        }
    }
    for m in 0..=nj.min(8) {
        pairs.push((m, None, true));
    }
    let mut complete = true;
    // two repetitions of the SAME named rule in one grammar (shared builder caches): the first is
    // pinned to a legal count, the second is probed over all counts
    {
        let nn = ctx.pick(6usize, 14);
        let mut specs: Vec<(usize, Option<usize>)> = vec![];
        for b in 1..=nn {
            for a in 0..=b {
                specs.push((a, Some(b)));
            }
        }
        for a in 0..=4 {
            specs.push((a, None));
        }
        let mut k: u64 = 10_000_000;
        for &(a1, b1) in &specs {
            for &(a2, b2) in &specs {
                k += 1;
                if !ctx.mine(k) {
                    continue;
                }
                if ctx.out_of_time() {
                    complete = false;
                    break;
                }
                // keep the quick tier affordable: every pair in thorough, a deterministic third in quick
                if !ctx.thorough && (a1 * 7 + b1.unwrap_or(9) * 3 + a2 * 5 + b2.unwrap_or(4)) % 3 != 0 {
                    continue;
                }
                let q1 = quant(a1, b1, 1);
                let q2 = quant(a2, b2, 1);
                let first_count = b1.map_or(a1 + 1, |b| (a1 + b) / 2).max(a1);
                let total = b2.map(|n| n + 4).unwrap_or(a2 + 7);
                for (ri, (rule_def, el)) in [("d: /[0-9]/", b"7".to_vec()), ("d: \"ab\"", b"ab".to_vec())].iter().enumerate() {
                    let mut open = vec![];
                    for _ in 0..first_count {
                        open.extend_from_slice(el);
                    }
                    open.push(b'-');
                    let spec = Spec {
                        name: format!("two-reps-same-rule:d{q1} - d{q2}"),
                        grammar: GCase::lark("c09", &format!("start: d{q1} \"-\" d{q2} \">\"\n{rule_def}\n")),
                        open,
                        close: b">".to_vec(),
                        elems: (0..total).map(|_| el.clone()).collect(),
                        m: a2,
                        n: b2,
                    };
                    ctx.rep.inc("grammars");
                    ctx.rep.inc("two_repetition_grammars");
                    match probe(&spec, &f, &mut ctx.rep) {
                        Ok(()) => {
                            ctx.rep.nontrivial(fnv(spec.name.as_bytes()) ^ ri as u64);
                        }
                        Err((kind, _)) if kind == "resource_stop" => ctx.rep.inconclusive("resource_stop"),
                        Err((kind, detail)) => {
                            let d = json!({"spec": spec.name, "grammar": spec.grammar.text, "oracle": detail});
                            let rp = ctx.replay(k);
                            ctx.rep.violation(&kind, &["lark_two_repeats".to_string()], d, rp);
                        }
                    }
                }
            }
        }
    }
    for (idx, &(m, n, is_json)) in pairs.iter().enumerate() {
        let idx = idx as u64;
        if !ctx.mine(idx) {
            continue;
        }
        if ctx.out_of_time() {
            complete = false;
            break;
        }
        let mut rng = ctx.case_rng(idx);
        let specs = if is_json { json_specs(m, n, &mut rng) } else { lark_specs(m, n, &mut rng) };
        for (si, spec) in specs.iter().enumerate() {
            if spec.name.starts_with("json:") && n == Some(0) && spec.name.contains("prefixItems") {
                // fine: prefixItems with maxItems 0
            }
            ctx.rep.inc("grammars");
            let fac = if si % 2 == 0 { &f } else { &f_sliced };
            match probe(spec, fac, &mut ctx.rep) {
                Ok(()) => {
                    if n.map_or(true, |n| n >= 1) {
                        ctx.rep.nontrivial(fnv(spec.name.as_bytes()) ^ ((m as u64) << 32) ^ n.map_or(0xFFFF, |n| n as u64));
                    }
                }
                Err((kind, _)) if kind == "grammar_rejected" && !is_json && n == Some(0) && !spec.name.starts_with("regex:") && !spec.name.starts_with("from_regex:") => {
                    // Lark syntax deliberately refuses x{0} / x{0,0} with an error
                    ctx.rep.inc("lark_zero_range_refused");
                }
                Err((kind, _)) if kind == "resource_stop" => ctx.rep.inconclusive("resource_stop"),
                Err((kind, detail)) => {
                    let d = json!({"spec": spec.name, "m": m, "n": n, "grammar": spec.grammar.text, "oracle": detail});
                    let rp = ctx.replay(idx);
                    ctx.rep.violation(&kind, &[if is_json { "json_bounds".to_string() } else { "lark_repeat".to_string() }], d, rp);
                }
            }
        }
        if idx % 97 == 0 {
            ctx.rep.sample(json!({"m": m, "n": n, "family": if is_json {"json"} else {"lark"}, "grammars": specs.iter().map(|s| s.name.clone()).collect::<Vec<_>>(), "first_grammar": specs[0].grammar.text}));
        }
    }
    ctx.rep.add("max.bound_lark", nl as u64);
    ctx.rep.add("max.bound_json", nj as u64);
    ctx.rep.exhaustive = Some(complete);
}
