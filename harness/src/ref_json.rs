//! Reference JSON parser (keeps number text and duplicate keys) and an exact-arithmetic
//! Draft 2020-12 validator for the keyword subset the harness generates.

use serde_json::Value;

#[derive(Clone, Debug, PartialEq)]
pub enum J {
    Null,
    Bool(bool),
    /// raw literal text
    Num(String),
    Str(String),
    Arr(Vec<J>),
    Obj(Vec<(String, J)>),
}

pub struct JParser<'a> {
    s: &'a [u8],
    i: usize,
    depth: usize,
}

#[derive(Debug, Clone, PartialEq)]
pub struct JErr(pub String, pub usize);

impl<'a> JParser<'a> {
    /// strict RFC 8259 parse; `ws_ok` allows insignificant whitespace
    pub fn parse(s: &'a [u8]) -> Result<J, JErr> {
        let mut p = JParser { s, i: 0, depth: 0 };
        p.ws();
        let v = p.value()?;
        p.ws();
        if p.i != s.len() {
            return Err(JErr("trailing bytes".into(), p.i));
        }
        Ok(v)
    }
    fn err<T>(&self, m: &str) -> Result<T, JErr> {
        Err(JErr(m.to_string(), self.i))
    }
    fn ws(&mut self) {
        while self.i < self.s.len() && matches!(self.s[self.i], b' ' | b'\t' | b'\n' | b'\r') {
            self.i += 1;
        }
    }
    fn peek(&self) -> Option<u8> {
        self.s.get(self.i).copied()
    }
    fn lit(&mut self, l: &[u8], v: J) -> Result<J, JErr> {
        if self.s[self.i..].starts_with(l) {
            self.i += l.len();
            Ok(v)
        } else {
            self.err("bad literal")
        }
    }
    fn value(&mut self) -> Result<J, JErr> {
        self.depth += 1;
        if self.depth > 500 {
            return self.err("too deep");
        }
        let r = match self.peek() {
            None => self.err("eof"),
            Some(b'n') => self.lit(b"null", J::Null),
            Some(b't') => self.lit(b"true", J::Bool(true)),
            Some(b'f') => self.lit(b"false", J::Bool(false)),
            Some(b'"') => Ok(J::Str(self.string()?)),
            Some(b'[') => {
                self.i += 1;
                let mut v = vec![];
                self.ws();
                if self.peek() == Some(b']') {
                    self.i += 1;
                    Ok(J::Arr(v))
                } else {
                    loop {
                        self.ws();
                        v.push(self.value()?);
                        self.ws();
                        match self.peek() {
                            Some(b',') => self.i += 1,
                            Some(b']') => {
                                self.i += 1;
                                break Ok(J::Arr(v));
                            }
                            _ => break self.err("expected , or ]"),
                        }
                    }
                }
            }
            Some(b'{') => {
                self.i += 1;
                let mut v = vec![];
                self.ws();
                if self.peek() == Some(b'}') {
                    self.i += 1;
                    Ok(J::Obj(v))
                } else {
                    loop {
                        self.ws();
                        if self.peek() != Some(b'"') {
                            break self.err("expected key");
                        }
                        let k = self.string()?;
                        self.ws();
                        if self.peek() != Some(b':') {
                            break self.err("expected :");
                        }
                        self.i += 1;
                        self.ws();
                        let x = self.value()?;
                        v.push((k, x));
                        self.ws();
                        match self.peek() {
                            Some(b',') => self.i += 1,
                            Some(b'}') => {
                                self.i += 1;
                                break Ok(J::Obj(v));
                            }
                            _ => break self.err("expected , or }"),
                        }
                    }
                }
            }
            Some(b'-') | Some(b'0'..=b'9') => self.number(),
            Some(_) => self.err("unexpected byte"),
        };
        self.depth -= 1;
        r
    }
    fn number(&mut self) -> Result<J, JErr> {
        let st = self.i;
        if self.peek() == Some(b'-') {
            self.i += 1;
        }
        match self.peek() {
            Some(b'0') => self.i += 1,
            Some(b'1'..=b'9') => {
                while matches!(self.peek(), Some(b'0'..=b'9')) {
                    self.i += 1;
                }
            }
            _ => return self.err("bad number"),
        }
        if self.peek() == Some(b'.') {
            self.i += 1;
            if !matches!(self.peek(), Some(b'0'..=b'9')) {
                return self.err("bad fraction");
            }
            while matches!(self.peek(), Some(b'0'..=b'9')) {
                self.i += 1;
            }
        }
        if matches!(self.peek(), Some(b'e') | Some(b'E')) {
            self.i += 1;
            if matches!(self.peek(), Some(b'+') | Some(b'-')) {
                self.i += 1;
            }
            if !matches!(self.peek(), Some(b'0'..=b'9')) {
                return self.err("bad exponent");
            }
            while matches!(self.peek(), Some(b'0'..=b'9')) {
                self.i += 1;
            }
        }
        Ok(J::Num(String::from_utf8_lossy(&self.s[st..self.i]).to_string()))
    }
    fn hex4(&mut self) -> Result<u32, JErr> {
        if self.i + 4 > self.s.len() {
            return self.err("short \\u");
        }
        let mut v = 0u32;
        for k in 0..4 {
            let c = self.s[self.i + k];
            let d = match c {
                b'0'..=b'9' => c - b'0',
                b'a'..=b'f' => c - b'a' + 10,
                b'A'..=b'F' => c - b'A' + 10,
                _ => return self.err("bad hex"),
            };
            v = v * 16 + d as u32;
        }
        self.i += 4;
        Ok(v)
    }
    fn string(&mut self) -> Result<String, JErr> {
        self.i += 1;
        let mut out: Vec<u8> = vec![];
        loop {
            match self.peek() {
                None => return self.err("eof in string"),
                Some(b'"') => {
                    self.i += 1;
                    break;
                }
                Some(b'\\') => {
                    self.i += 1;
                    let c = match self.peek() {
                        Some(c) => c,
                        None => return self.err("eof in escape"),
                    };
                    self.i += 1;
                    match c {
                        b'"' => out.push(b'"'),
                        b'\\' => out.push(b'\\'),
                        b'/' => out.push(b'/'),
                        b'b' => out.push(8),
                        b'f' => out.push(12),
                        b'n' => out.push(b'\n'),
                        b'r' => out.push(b'\r'),
                        b't' => out.push(b'\t'),
                        b'u' => {
                            let mut cp = self.hex4()?;
                            if (0xD800..0xDC00).contains(&cp) {
                                if self.s[self.i..].starts_with(b"\\u") {
                                    self.i += 2;
                                    let lo = self.hex4()?;
                                    if !(0xDC00..0xE000).contains(&lo) {
                                        return self.err("unpaired surrogate");
                                    }
                                    cp = 0x10000 + ((cp - 0xD800) << 10) + (lo - 0xDC00);
                                } else {
                                    return self.err("unpaired surrogate");
                                }
                            } else if (0xDC00..0xE000).contains(&cp) {
                                return self.err("unpaired surrogate");
                            }
                            let ch = char::from_u32(cp).ok_or(JErr("bad cp".into(), self.i))?;
                            let mut b = [0u8; 4];
                            out.extend_from_slice(ch.encode_utf8(&mut b).as_bytes());
                        }
                        _ => return self.err("bad escape"),
                    }
                }
                Some(c) if c < 0x20 => return self.err("control char in string"),
                Some(c) => {
                    out.push(c);
                    self.i += 1;
                }
            }
        }
        String::from_utf8(out).map_err(|_| JErr("invalid utf8 in string".into(), self.i))
    }
}

impl J {
    pub fn to_value(&self) -> Option<Value> {
        Some(match self {
            J::Null => Value::Null,
            J::Bool(b) => Value::Bool(*b),
            J::Num(t) => serde_json::from_str::<Value>(t).ok()?,
            J::Str(s) => Value::String(s.clone()),
            J::Arr(v) => Value::Array(v.iter().map(|x| x.to_value()).collect::<Option<Vec<_>>>()?),
            J::Obj(v) => {
                let mut m = serde_json::Map::new();
                for (k, x) in v {
                    m.insert(k.clone(), x.to_value()?);
                }
                Value::Object(m)
            }
        })
    }
    pub fn from_value(v: &Value) -> J {
        match v {
            Value::Null => J::Null,
            Value::Bool(b) => J::Bool(*b),
            Value::Number(n) => J::Num(n.to_string()),
            Value::String(s) => J::Str(s.clone()),
            Value::Array(a) => J::Arr(a.iter().map(J::from_value).collect()),
            Value::Object(o) => J::Obj(o.iter().map(|(k, x)| (k.clone(), J::from_value(x))).collect()),
        }
    }
}

// ------------------------------------------------------------------ exact decimals

/// value = (-1)^neg * digits * 10^exp, digits without leading zeros (empty = 0)
#[derive(Clone, Debug, PartialEq)]
pub struct Dec {
    pub neg: bool,
    pub digits: Vec<u8>,
    pub exp: i64,
}

impl Dec {
    pub fn parse(t: &str) -> Option<Dec> {
        let b = t.as_bytes();
        let mut i = 0;
        let mut neg = false;
        if i < b.len() && (b[i] == b'-' || b[i] == b'+') {
            neg = b[i] == b'-';
            i += 1;
        }
        let mut digits = vec![];
        let mut exp = 0i64;
        let mut seen = false;
        while i < b.len() && b[i].is_ascii_digit() {
            digits.push(b[i] - b'0');
            i += 1;
            seen = true;
        }
        if i < b.len() && b[i] == b'.' {
            i += 1;
            while i < b.len() && b[i].is_ascii_digit() {
                digits.push(b[i] - b'0');
                exp -= 1;
                i += 1;
                seen = true;
            }
        }
        if !seen {
            return None;
        }
        if i < b.len() && (b[i] == b'e' || b[i] == b'E') {
            i += 1;
            let e: i64 = std::str::from_utf8(&b[i..]).ok()?.parse().ok()?;
            exp = exp.checked_add(e)?;
            i = b.len();
        }
        if i != b.len() {
            return None;
        }
        let mut d = Dec { neg, digits, exp };
        d.norm();
        Some(d)
    }
    fn norm(&mut self) {
        let lead = self.digits.iter().take_while(|&&d| d == 0).count();
        self.digits.drain(..lead);
        while let Some(&0) = self.digits.last() {
            self.digits.pop();
            self.exp += 1;
        }
        if self.digits.is_empty() {
            self.neg = false;
            self.exp = 0;
        }
    }
    pub fn is_zero(&self) -> bool {
        self.digits.is_empty()
    }
    pub fn is_integer(&self) -> bool {
        self.is_zero() || self.exp >= 0
    }
    /// position of the decimal point relative to the first digit (magnitude)
    fn mag(&self) -> i64 {
        self.digits.len() as i64 + self.exp
    }
    fn cmp_abs(&self, o: &Dec) -> std::cmp::Ordering {
        use std::cmp::Ordering::*;
        if self.is_zero() || o.is_zero() {
            return (!self.is_zero() as u8).cmp(&(!o.is_zero() as u8));
        }
        match self.mag().cmp(&o.mag()) {
            Equal => {}
            x => return x,
        }
        let n = self.digits.len().max(o.digits.len());
        for i in 0..n {
            let a = self.digits.get(i).copied().unwrap_or(0);
            let b = o.digits.get(i).copied().unwrap_or(0);
            match a.cmp(&b) {
                Equal => {}
                x => return x,
            }
        }
        Equal
    }
    pub fn cmp(&self, o: &Dec) -> std::cmp::Ordering {
        use std::cmp::Ordering::*;
        match (self.neg, o.neg) {
            (false, true) => Greater,
            (true, false) => Less,
            (false, false) => self.cmp_abs(o),
            (true, true) => o.cmp_abs(self),
        }
    }
    /// Some(true) iff self is an integer multiple of m; None if out of exact range
    pub fn is_multiple_of(&self, m: &Dec) -> Option<bool> {
        if m.is_zero() {
            return None;
        }
        if self.is_zero() {
            return Some(true);
        }
        // self = a*10^e1, m = b*10^e2 ; need a*10^(e1-e2) divisible by b
        let b = to_u128(&m.digits)?;
        if b >= (1u128 << 120) {
            return None;
        }
        let d = self.exp - m.exp;
        if d >= 0 {
            // (a * 10^d) mod b with a of arbitrary length, computed digit by digit
            let mut r: u128 = 0;
            for &x in &self.digits {
                r = (r * 10 + x as u128) % b;
            }
            if d > 100000 {
                return None;
            }
            for _ in 0..d {
                r = (r * 10) % b;
                if r == 0 {
                    break;
                }
            }
            Some(r == 0)
        } else {
            // a is normalised (last digit non-zero) so it is not divisible by 10^-d
            Some(false)
        }
    }
}

fn to_u128(d: &[u8]) -> Option<u128> {
    let mut v: u128 = 0;
    for &x in d {
        v = v.checked_mul(10)?.checked_add(x as u128)?;
    }
    Some(v)
}

pub fn num_text(v: &Value) -> Option<String> {
    match v {
        Value::Number(n) => Some(n.to_string()),
        _ => None,
    }
}

// ------------------------------------------------------------------ validator

#[derive(Debug, Clone, PartialEq)]
pub enum Verdict {
    Valid,
    Invalid(String),
    /// keyword/format/number outside what this validator decides exactly
    Unknown(String),
}

pub struct Validator<'a> {
    pub root: &'a Value,
    pub budget: usize,
}

fn j_equal(a: &J, b: &J) -> bool {
    match (a, b) {
        (J::Null, J::Null) => true,
        (J::Bool(x), J::Bool(y)) => x == y,
        (J::Num(x), J::Num(y)) => match (Dec::parse(x), Dec::parse(y)) {
            (Some(p), Some(q)) => p == q,
            _ => x == y,
        },
        (J::Str(x), J::Str(y)) => x == y,
        (J::Arr(x), J::Arr(y)) => x.len() == y.len() && x.iter().zip(y).all(|(p, q)| j_equal(p, q)),
        (J::Obj(x), J::Obj(y)) => {
            // compare as maps (last occurrence wins)
            let mx: std::collections::BTreeMap<&String, &J> = x.iter().map(|(k, v)| (k, v)).collect();
            let my: std::collections::BTreeMap<&String, &J> = y.iter().map(|(k, v)| (k, v)).collect();
            mx.len() == my.len() && mx.iter().all(|(k, v)| my.get(*k).is_some_and(|w| j_equal(v, w)))
        }
        _ => false,
    }
}

fn type_of(j: &J) -> &'static str {
    match j {
        J::Null => "null",
        J::Bool(_) => "boolean",
        J::Num(_) => "number",
        J::Str(_) => "string",
        J::Arr(_) => "array",
        J::Obj(_) => "object",
    }
}

macro_rules! inv {
    ($($a:tt)*) => { return Verdict::Invalid(format!($($a)*)) };
}

impl<'a> Validator<'a> {
    pub fn new(root: &'a Value) -> Self {
        Validator { root, budget: 200_000 }
    }

    fn resolve(&self, r: &str) -> Option<&'a Value> {
        if r == "#" {
            return Some(self.root);
        }
        let p = r.strip_prefix("#")?;
        self.root.pointer(p)
    }

    pub fn validate(&mut self, schema: &Value, inst: &J) -> Verdict {
        if self.budget == 0 {
            return Verdict::Unknown("budget".into());
        }
        self.budget -= 1;
        let o = match schema {
            Value::Bool(true) => return Verdict::Valid,
            Value::Bool(false) => inv!("false schema"),
            Value::Object(o) => o,
            _ => return Verdict::Unknown("schema not object".into()),
        };
        let mut unknown: Option<String> = None;
        let mut inner_reason = String::new();
        macro_rules! sub {
            ($s:expr, $i:expr) => {
                match self.validate($s, $i) {
                    Verdict::Valid => true,
                    Verdict::Invalid(r) => {
                        inner_reason = r;
                        false
                    }
                    Verdict::Unknown(u) => {
                        unknown = Some(u);
                        true
                    }
                }
            };
        }
        for (k, v) in o.iter() {
            match k.as_str() {
                "$ref" => {
                    let Some(r) = v.as_str() else { return Verdict::Unknown("ref".into()) };
                    let Some(t) = self.resolve(r) else { return Verdict::Unknown(format!("unresolved ref {r}")) };
                    match self.validate(t, inst) {
                        Verdict::Valid => {}
                        Verdict::Unknown(u) => unknown = Some(u),
                        x => return x,
                    }
                }
                "type" => {
                    let ts: Vec<&str> = match v {
                        Value::String(s) => vec![s.as_str()],
                        Value::Array(a) => a.iter().filter_map(|x| x.as_str()).collect(),
                        _ => return Verdict::Unknown("type".into()),
                    };
                    let t = type_of(inst);
                    let ok = ts.iter().any(|&want| {
                        want == t
                            || (want == "integer"
                                && matches!(inst, J::Num(n) if Dec::parse(n).is_some_and(|d| d.is_integer())))
                    });
                    if !ok {
                        inv!("type {t} not in {ts:?}");
                    }
                }
                "enum" => {
                    let Some(a) = v.as_array() else { return Verdict::Unknown("enum".into()) };
                    if !a.iter().any(|c| j_equal(&J::from_value(c), inst)) {
                        inv!("not in enum");
                    }
                }
                "const" => {
                    if !j_equal(&J::from_value(v), inst) {
                        inv!("const mismatch");
                    }
                }
                "allOf" => {
                    for s in v.as_array().into_iter().flatten() {
                        if !sub!(s, inst) {
                            inv!("allOf branch failed > {}", inner_reason);
                        }
                    }
                }
                "anyOf" => {
                    let mut any = false;
                    let mut unk = None;
                    let mut reasons = vec![];
                    for s in v.as_array().into_iter().flatten() {
                        match self.validate(s, inst) {
                            Verdict::Valid => {
                                any = true;
                                break;
                            }
                            Verdict::Unknown(u) => unk = Some(u),
                            Verdict::Invalid(r) => reasons.push(r),
                        }
                    }
                    if !any {
                        if let Some(u) = unk {
                            unknown = Some(u);
                        } else {
                            inv!("no anyOf branch > [{}]", reasons.join(" | "));
                        }
                    }
                }
                "oneOf" => {
                    let mut n = 0;
                    for s in v.as_array().into_iter().flatten() {
                        match self.validate(s, inst) {
                            Verdict::Valid => n += 1,
                            Verdict::Unknown(u) => unknown = Some(u),
                            _ => {}
                        }
                    }
                    if n != 1 && unknown.is_none() {
                        inv!("oneOf matched {n}");
                    }
                }
                "not" => match self.validate(v, inst) {
                    Verdict::Valid => inv!("not"),
                    Verdict::Unknown(u) => unknown = Some(u),
                    _ => {}
                },
                "minLength" | "maxLength" => {
                    if let J::Str(s) = inst {
                        let n = s.chars().count() as u64;
                        let Some(lim) = v.as_u64().or_else(|| v.as_f64().filter(|f| f.fract() == 0.0 && *f >= 0.0).map(|f| f as u64)) else {
                            return Verdict::Unknown("length".into());
                        };
                        if k == "minLength" && n < lim {
                            inv!("minLength {n}<{lim}");
                        }
                        if k == "maxLength" && n > lim {
                            inv!("maxLength {n}>{lim}");
                        }
                    }
                }
                "pattern" => {
                    if let J::Str(s) = inst {
                        let Some(p) = v.as_str() else { return Verdict::Unknown("pattern".into()) };
                        match regex::Regex::new(p) {
                            Ok(re) => {
                                if !re.is_match(s) {
                                    inv!("pattern");
                                }
                            }
                            Err(_) => unknown = Some("pattern syntax".into()),
                        }
                    }
                }
                "format" => {
                    if let J::Str(s) = inst {
                        match crate::formats::check(v.as_str().unwrap_or(""), s) {
                            Some(true) => {}
                            Some(false) => inv!("format {} :: {}", v.as_str().unwrap_or(""), s),
                            None => unknown = Some(format!("format {v}")),
                        }
                    }
                }
                "minimum" | "maximum" | "exclusiveMinimum" | "exclusiveMaximum" | "multipleOf" => {
                    if let J::Num(t) = inst {
                        let (Some(x), Some(lim)) = (Dec::parse(t), num_text(v).and_then(|t| Dec::parse(&t))) else {
                            return Verdict::Unknown("number".into());
                        };
                        use std::cmp::Ordering::*;
                        let c = x.cmp(&lim);
                        match k.as_str() {
                            "minimum" if c == Less => inv!("minimum"),
                            "maximum" if c == Greater => inv!("maximum"),
                            "exclusiveMinimum" if c != Greater => inv!("exclusiveMinimum"),
                            "exclusiveMaximum" if c != Less => inv!("exclusiveMaximum"),
                            "multipleOf" => match x.is_multiple_of(&lim) {
                                Some(true) => {}
                                Some(false) => inv!("multipleOf"),
                                None => unknown = Some("multipleOf range".into()),
                            },
                            _ => {}
                        }
                    }
                }
                "minItems" | "maxItems" => {
                    if let J::Arr(a) = inst {
                        let Some(lim) = v.as_u64() else { return Verdict::Unknown("items".into()) };
                        if k == "minItems" && (a.len() as u64) < lim {
                            inv!("minItems");
                        }
                        if k == "maxItems" && (a.len() as u64) > lim {
                            inv!("maxItems");
                        }
                    }
                }
                "prefixItems" => {
                    if let J::Arr(a) = inst {
                        for (s, x) in v.as_array().into_iter().flatten().zip(a.iter()) {
                            if !sub!(s, x) {
                                inv!("prefixItems > {}", inner_reason);
                            }
                        }
                    }
                }
                "items" => {
                    if let J::Arr(a) = inst {
                        let skip = o.get("prefixItems").and_then(|p| p.as_array()).map(|p| p.len()).unwrap_or(0);
                        for x in a.iter().skip(skip) {
                            if !sub!(v, x) {
                                inv!("items > {}", inner_reason);
                            }
                        }
                    }
                }
                "required" => {
                    if let J::Obj(m) = inst {
                        for r in v.as_array().into_iter().flatten() {
                            let Some(r) = r.as_str() else { continue };
                            if !m.iter().any(|(k, _)| k == r) {
                                inv!("required {r}");
                            }
                        }
                    }
                }
                "properties" => {
                    if let J::Obj(m) = inst {
                        let Some(props) = v.as_object() else { return Verdict::Unknown("properties".into()) };
                        for (pk, ps) in props {
                            let occ: Vec<&J> = m.iter().filter(|(k, _)| k == pk).map(|(_, x)| x).collect();
                            if occ.len() > 1 {
                                inv!("declared property {pk} repeated");
                            }
                            for x in occ {
                                if !sub!(ps, x) {
                                    inv!("property {pk} > {}", inner_reason);
                                }
                            }
                        }
                    }
                }
                "patternProperties" => {
                    if let J::Obj(m) = inst {
                        for (pat, ps) in v.as_object().into_iter().flatten() {
                            let Ok(re) = regex::Regex::new(pat) else {
                                unknown = Some("patternProperties syntax".into());
                                continue;
                            };
                            for (k2, x) in m {
                                if re.is_match(k2) && !sub!(ps, x) {
                                    inv!("patternProperties {pat} > {}", inner_reason);
                                }
                            }
                        }
                    }
                }
                "additionalProperties" => {
                    if let J::Obj(m) = inst {
                        let props = o.get("properties").and_then(|p| p.as_object());
                        let pats: Vec<regex::Regex> = o
                            .get("patternProperties")
                            .and_then(|p| p.as_object())
                            .map(|p| p.keys().filter_map(|k| regex::Regex::new(k).ok()).collect())
                            .unwrap_or_default();
                        for (k2, x) in m {
                            if props.is_some_and(|p| p.contains_key(k2)) || pats.iter().any(|re| re.is_match(k2)) {
                                continue;
                            }
                            if !sub!(v, x) {
                                inv!("additionalProperties {k2} > {}", inner_reason);
                            }
                        }
                    }
                }
                "minProperties" | "maxProperties" => {
                    if let J::Obj(m) = inst {
                        let Some(lim) = v.as_u64() else { return Verdict::Unknown("props".into()) };
                        let occ = m.len() as u64;
                        let distinct = m.iter().map(|(k, _)| k).collect::<std::collections::BTreeSet<_>>().len() as u64;
                        // documented departure: repeated additional keys are not excluded
                        if k == "minProperties" && occ < lim {
                            inv!("minProperties");
                        }
                        if k == "maxProperties" && distinct > lim {
                            inv!("maxProperties");
                        }
                    }
                }
                "uniqueItems" => {
                    if let (J::Arr(a), Some(true)) = (inst, v.as_bool()) {
                        for i in 0..a.len() {
                            for j in i + 1..a.len() {
                                if j_equal(&a[i], &a[j]) {
                                    inv!("uniqueItems");
                                }
                            }
                        }
                    }
                }
                "contains" => {
                    if let J::Arr(a) = inst {
                        let mut n = 0u64;
                        for x in a {
                            if let Verdict::Valid = self.validate(v, x) {
                                n += 1;
                            }
                        }
                        let lo = o.get("minContains").and_then(|x| x.as_u64()).unwrap_or(1);
                        let hi = o.get("maxContains").and_then(|x| x.as_u64()).unwrap_or(u64::MAX);
                        if n < lo || n > hi {
                            inv!("contains {n}");
                        }
                    }
                }
                "minContains" | "maxContains" | "then" | "else" => {}
                "if" => {
                    let c = matches!(self.validate(v, inst), Verdict::Valid);
                    let branch = if c { o.get("then") } else { o.get("else") };
                    if let Some(b) = branch {
                        if !sub!(b, inst) {
                            inv!("if/then/else > {}", inner_reason);
                        }
                    }
                }
                "propertyNames" => {
                    if let J::Obj(m) = inst {
                        for (k2, _) in m {
                            if !sub!(v, &J::Str(k2.clone())) {
                                inv!("propertyNames {k2} > {}", inner_reason);
                            }
                        }
                    }
                }
                "dependentRequired" => {
                    if let J::Obj(m) = inst {
                        for (k2, reqs) in v.as_object().into_iter().flatten() {
                            if m.iter().any(|(k, _)| k == k2) {
                                for r in reqs.as_array().into_iter().flatten() {
                                    if let Some(r) = r.as_str() {
                                        if !m.iter().any(|(k, _)| k == r) {
                                            inv!("dependentRequired {k2}->{r}");
                                        }
                                    }
                                }
                            }
                        }
                    }
                }
                "$defs" | "definitions" | "$schema" | "$id" | "title" | "description" | "default" | "examples" | "x-guidance" | "$comment" | "deprecated" | "readOnly" | "writeOnly" => {}
                other => unknown = Some(format!("keyword {other}")),
            }
        }
        // duplicate declared keys are a violation even if `properties` is absent in this subschema;
        // handled in "properties" above.
        match unknown {
            Some(u) => Verdict::Unknown(u),
            None => Verdict::Valid,
        }
    }
}

/// keyword kinds used anywhere in a schema (for the non-triviality rule)
pub fn keyword_kinds(s: &Value, out: &mut std::collections::BTreeSet<String>) {
    match s {
        Value::Object(o) => {
            for (k, v) in o {
                if k == "x-guidance" {
                    out.insert(k.clone());
                    continue;
                }
                if matches!(k.as_str(), "properties" | "patternProperties" | "$defs" | "definitions") {
                    out.insert(k.clone());
                    if let Some(m) = v.as_object() {
                        for (_, x) in m {
                            keyword_kinds(x, out);
                        }
                    }
                    continue;
                }
                if matches!(k.as_str(), "enum" | "const" | "required" | "default") {
                    out.insert(k.clone());
                    continue;
                }
                out.insert(k.clone());
                keyword_kinds(v, out);
            }
        }
        Value::Array(a) => a.iter().for_each(|x| keyword_kinds(x, out)),
        _ => {}
    }
}
