//! C03: allowed tokens never lead into a dead end (productive grammars, byte-complete
//! vocabularies). Direct monitor (empty mask / no-extension stop in a non-accepting state),
//! exact monitor against the reference models, bounded-progress roll-outs for JSON schemas.

use crate::ctx::Ctx;
use crate::engine::*;
use crate::gen_cfg;
use crate::gen_json::JsonGen;
use crate::gen_regex::RxGen;
use crate::pool::{self, VKind};
use crate::ref_dfa::Dfa;
use crate::ref_earley::{Bnf, Earley};
use crate::report::bytes_dbg;
use crate::rng::{fnv, Rng};
use crate::tp::{MaskErr, Tp};
use crate::vocab::Vocab;
use crate::walker::{self, Policy};
use llguidance::api::StopReason;
use serde_json::{json, Value};

enum Reference {
    None,
    Dfa(Dfa),
    Cfg(Bnf),
}

fn json_dead_end_family(rng: &mut Rng) -> Value {
    let a = rng.range(-30, 30);
    let w = rng.range(0, 12);
    match rng.below(14) {
        12 => {
            // a length bound next to the length a pattern implies, at several magnitudes: off by one below, equal, above
            // (above = unsatisfiable: the schema is refused, or the property is simply never offered)
            let n = *rng.pick(&[3usize, 12, 40, 300, 700]);
            let d = rng.below(3);
            let minl = n + d - 1;
            let s = json!({"type": "string", "pattern": format!("^[a-z]{{1,{n}}}$"), "minLength": minl});
            let mut o = json!({"type": "object", "properties": {"b": {"type": "boolean"}, "a": s}, "additionalProperties": false});
            if rng.chance(1, 2) {
                o["required"] = json!(["b"]);
            }
            if rng.chance(1, 2) {
                o["x-guidance"] = json!({"whitespace_flexible": false});
            }
            o
        }
        13 => {
            let l = *rng.pick(&[2usize, 3, 40, 41, 400, 401]);
            let mut o = json!({"type": "array", "prefixItems": [{"type": "integer", "minimum": 0, "maximum": 9}, {"type": "string", "pattern": "^([a-z][0-9])+$", "minLength": l, "maxLength": l}], "items": false, "minItems": 1});
            if rng.chance(1, 2) {
                o["x-guidance"] = json!({"whitespace_flexible": false});
            }
            o
        }
        0 => json!({"type": "integer", "minimum": a, "maximum": a + w, "multipleOf": *rng.pick(&[2, 3, 5, 7])}),
        1 => json!({"type": "number", "exclusiveMinimum": a, "exclusiveMaximum": a + 1 + w, "multipleOf": *rng.pick(&[0.5, 0.25, 0.1])}),
        2 => json!({"type": "number", "minimum": a as f64 + 0.25, "maximum": a as f64 + 0.75}),
        3 => json!({"type": "string", "minLength": rng.below(5), "maxLength": 4 + rng.below(4), "pattern": *rng.pick(&["^[a-c]+$", "^a*b$", "^(ab)*$", "x$", "^[0-9]{3}"])}),
        4 => json!({"type": "string", "format": *rng.pick(&["date", "time", "ipv4", "uuid", "duration", "email", "hostname", "date-time", "ipv6"]), "maxLength": 8 + rng.below(40)}),
        5 => json!({"allOf": [{"type": "string", "pattern": "^[a-z]+$"}, {"type": "string", "maxLength": 1 + rng.below(4), "minLength": 1}]}),
        6 => json!({"allOf": [{"type": "integer", "minimum": a}, {"type": "integer", "maximum": a + w, "multipleOf": 4}]}),
        7 => json!({"type": "object", "properties": {"a": {"type": "integer", "minimum": 5, "maximum": 5 + w}, "b": {"type": "string", "minLength": 2, "maxLength": 2}}, "required": ["a", "b"], "additionalProperties": false}),
        8 => json!({"type": "array", "items": {"type": "integer", "minimum": a, "maximum": a + w}, "minItems": 1 + rng.below(3), "maxItems": 3 + rng.below(2)}),
        9 => json!({"type": "object", "properties": {"k": {"type": "string", "format": "date"}, "opt": {"type": "integer", "minimum": 10, "maximum": 9}}, "required": ["k"], "additionalProperties": false}),
        10 => json!({"anyOf": [{"type": "integer", "minimum": 3, "maximum": 2}, {"type": "string", "maxLength": 2}, {"type": "number", "minimum": a, "maximum": a + w}]}),
        _ => json!({"type": "object", "additionalProperties": {"type": "integer", "minimum": a, "maximum": a + w}, "minProperties": 1, "maxProperties": 2 + rng.below(2)}),
    }
}

fn run_case(ctx: &mut Ctx, idx: u64) {
    let mut rng = ctx.case_rng(idx);
    let (g, reference, class) = match rng.below(10) {
        0..=2 => {
            let gen = RxGen { allow_algebra: rng.chance(1, 2), allow_raw_not: false, max_depth: 3 };
            let rx = pool::gen_nonempty(&mut rng, &gen);
            let Ok(d) = Dfa::from_rx(&rx) else { return };
            let g = if rx.has_algebra() { GCase::lark("c03term", &format!("start: T\nT: {}\n", rx.to_lark_term(&mut rng))) } else { GCase::regex("c03rx", &rx.to_regex()) };
            (g, Reference::Dfa(d), "regex")
        }
        3..=4 => {
            let cfg = if rng.chance(1, 3) { gen_cfg::random_parametric(&mut rng) } else { gen_cfg::random_cfg(&mut rng) };
            let Ok(b) = Bnf::from_cfg(&cfg) else { return };
            if b.pruned || !b.start_productive() {
                ctx.rep.inc("unproductive_skipped");
                return;
            }
            (cfg.to_case("c03cfg"), Reference::Cfg(b), "cfg")
        }
        5..=7 => {
            let s = json_dead_end_family(&mut rng);
            (GCase::json("c03js", &serde_json::to_string(&s).unwrap()).tag("json_numeric_family"), Reference::None, "json_family")
        }
        _ => {
            let gen = JsonGen { subset: false, max_depth: 1 + rng.below(3) as u32, n_defs: 0 };
            let s = gen.gen_top(&mut rng);
            (GCase::json("c03gen", &serde_json::to_string(&s).unwrap()), Reference::None, "json_random")
        }
    };
    let vk = match rng.below(7) {
        0 | 1 => VKind::V1,
        2 | 3 => VKind::Vsyn,
        4 => VKind::VsynC,
        _ => VKind::Bpe(rng.below(2)),
    };
    let v = pool::make_vocab(&mut rng, &g, vk);
    let Ok(f) = factory(&v, &FactoryOpts::default()) else { return };
    let Ok(mut m) = Tp::new(&f, &g) else {
        ctx.rep.inc("rejected_at_compile_time");
        return;
    };
    ctx.rep.inc("cases");
    ctx.rep.inc(&format!("class.{class}"));
    let steps = ctx.pick(30, 80);
    let mut hist: Vec<u32> = vec![];
    let tags = g.tags.clone();
    let mut earley = match &reference {
        Reference::Cfg(b) => Some(Earley::new(b)),
        _ => None,
    };
    let mut q = match &reference {
        Reference::Dfa(d) => d.start,
        _ => 0,
    };
    let mut bytes_ok = true; // history is byte-comparable (no special tokens)
    macro_rules! viol {
        ($kind:expr, $detail:expr) => {{
            let d = json!({"grammar": g.text, "class": class, "vocab": v.name, "history": hist, "history_bytes": bytes_dbg(&v.trie().decode_raw(&hist)), "oracle": $detail});
            let rp = ctx.replay(idx);
            ctx.rep.violation($kind, &tags, d, rp);
            return;
        }};
    }
    let ext = rng.below(steps);
    for step in 0..steps {
        if m.stopped() {
            break;
        }
        ctx.rep.inc("states");
        let acc = m.accepting();
        let mask = match m.mask() {
            Ok(x) => x,
            Err(MaskErr::Stop(r)) => {
                if m.is_resource_stop() {
                    ctx.rep.inconclusive("resource_stop");
                    return;
                }
                if r == StopReason::NoExtensionBias || r == StopReason::NoExtension {
                    if !acc {
                        viol!("dead_end_empty_mask_in_non_accepting_state", json!({"stop": format!("{r:?}")}));
                    }
                    break;
                }
                viol!("mask_failed_in_reachable_state", json!({"stop": format!("{r:?}")}));
            }
            Err(MaskErr::Panic) => viol!("panic_in_reachable_state", json!({})),
        };
        if mask.is_zero() {
            viol!("empty_mask_returned", json!({"accepting": acc}));
        }
        // exact monitor: the byte history must be a live / viable prefix in the reference
        if bytes_ok {
            match &reference {
                Reference::Dfa(d) => {
                    if !d.is_live(q) {
                        viol!("reached_prefix_is_dead_in_reference_dfa", json!({}));
                    }
                    ctx.rep.inc("reference_liveness_checks");
                }
                Reference::Cfg(_) => {
                    ctx.rep.inc("reference_liveness_checks");
                }
                Reference::None => {}
            }
        }
        let pol = if step < ext { if rng.chance(1, 2) { Policy::Extending } else { Policy::Uniform } } else { Policy::Closing };
        let Some(t) = walker::choose(&mut rng, &mask, &v, pol) else { break };
        if !m.consume(t) {
            if m.is_resource_stop() || crate::tp::accepted_with_relaxed_limits(&v, None, &g, &hist, t) {
                ctx.rep.inconclusive("resource_stop");
                return;
            }
            viol!("masked_token_rejected", json!({"token": t}));
        }
        hist.push(t);
        let w = &v.words[t as usize];
        if t == v.eos {
            break;
        }
        if w.is_empty() || w.contains(&0xFF) {
            bytes_ok = false;
        }
        if bytes_ok {
            match &reference {
                Reference::Dfa(d) => q = d.run_from(q, w),
                Reference::Cfg(_) => {
                    let e = earley.as_mut().unwrap();
                    for &b in w {
                        if !e.push(b) {
                            viol!("reached_prefix_not_viable_in_reference_grammar", json!({"token": t, "token_bytes": bytes_dbg(w)}));
                        }
                    }
                }
                Reference::None => {}
            }
        }
        // a stop right after the commit must be an accepting one
        if m.stopped() {
            let r = m.stop_reason();
            if !r.is_ok() {
                if m.is_resource_stop() {
                    ctx.rep.inconclusive("resource_stop");
                    return;
                }
                viol!("bad_stop_after_masked_token", json!({"stop": format!("{r:?}")}));
            }
        }
    }
    // bounded-progress restatement of "can still reach a legitimate stop": closing roll-out
    if !m.stopped() {
        let mut c = m.clone();
        let mut done = false;
        for _ in 0..400 {
            if c.stopped() {
                done = c.stop_reason().is_ok();
                break;
            }
            let acc = c.accepting();
            let mask = match c.mask() {
                Ok(x) => x,
                Err(MaskErr::Stop(r)) => {
                    if c.is_resource_stop() {
                        break;
                    }
                    if (r == StopReason::NoExtensionBias || r == StopReason::NoExtension) && !acc {
                        hist.push(u32::MAX);
                        viol!("dead_end_empty_mask_in_non_accepting_state", json!({"stop": format!("{r:?}"), "phase": "rollout"}));
                    }
                    done = acc;
                    break;
                }
                Err(MaskErr::Panic) => viol!("panic_in_reachable_state", json!({"phase": "rollout"})),
            };
            let Some(t) = walker::choose(&mut rng, &mask, &v, Policy::Closing) else { break };
            if !c.consume(t) {
                break;
            }
            if t == v.eos {
                done = true;
                break;
            }
        }
        if done {
            ctx.rep.inc("rollouts_reached_stop");
        } else {
            ctx.rep.inc("rollouts_without_stop_within_400");
        }
    } else {
        ctx.rep.inc("walks_reached_stop");
    }
    if hist.len() >= 3 {
        ctx.rep.nontrivial(g.hash() ^ fnv(&hist.iter().flat_map(|t| t.to_le_bytes()).collect::<Vec<u8>>()).rotate_left(29) ^ fnv(v.name.as_bytes()));
    }
    if rng.chance(1, 80) {
        ctx.rep.sample(json!({"grammar": g.text.chars().take(300).collect::<String>(), "class": class, "vocab": v.name, "history_bytes": bytes_dbg(&v.trie().decode_raw(&hist)).chars().take(200).collect::<String>()}));
    }
    let _ = Vocab::n;
}

pub fn run(ctx: &mut Ctx) {
    let n_cases = ctx.pick(10000, 800000);
    for idx in 0..n_cases {
        if !ctx.mine(idx) {
            continue;
        }
        if ctx.out_of_time() {
            break;
        }
        run_case(ctx, idx);
    }
}
