//! Run context shared by all monitors: tier, seed, sharding, soft deadline, report.

use crate::report::Report;
use crate::rng::Rng;
use std::time::{Duration, Instant};

pub struct Ctx {
    pub prop: String,
    pub thorough: bool,
    pub seed: u64,
    pub shard: usize,
    pub nshards: usize,
    pub only: Option<u64>,
    pub start: Instant,
    pub soft_deadline: Duration,
    pub rep: Report,
    pub args: Vec<String>,
}

impl Ctx {
    pub fn new(prop: &str, args: &[String]) -> Ctx {
        let mut c = Ctx {
            prop: prop.to_string(),
            thorough: false,
            seed: 1,
            shard: 0,
            nshards: 1,
            only: None,
            start: Instant::now(),
            soft_deadline: Duration::from_secs(100),
            rep: Report::new(prop),
            args: args.to_vec(),
        };
        let mut i = 0;
        while i < args.len() {
            let a = &args[i];
            let mut val = || {
                i += 1;
                args.get(i).cloned().unwrap_or_default()
            };
            match a.as_str() {
                "--tier" => c.thorough = val() == "thorough",
                "--seed" => c.seed = val().parse().unwrap_or(1),
                "--shard" => {
                    let v = val();
                    let mut it = v.split('/');
                    c.shard = it.next().unwrap().parse().unwrap();
                    c.nshards = it.next().unwrap().parse().unwrap();
                }
                "--only" => c.only = val().parse().ok(),
                "--deadline" => c.soft_deadline = Duration::from_secs(val().parse().unwrap_or(100)),
                _ => {}
            }
            i += 1;
        }
        c
    }
    pub fn arg(&self, name: &str) -> Option<String> {
        let mut it = self.args.iter();
        while let Some(a) = it.next() {
            if a == name {
                return it.next().cloned();
            }
        }
        None
    }
    /// does this shard own case `idx`?
    pub fn mine(&self, idx: u64) -> bool {
        if let Some(o) = self.only {
            return o == idx;
        }
        (idx as usize) % self.nshards == self.shard
    }
    /// independent rng for case idx (same in every shard layout)
    pub fn case_rng(&self, idx: u64) -> Rng {
        Rng::new(self.seed.wrapping_mul(0x9E3779B97F4A7C15) ^ crate::rng::fnv(self.prop.as_bytes()) ^ idx.wrapping_mul(0xD1B54A32D192ED03))
    }
    /// rng shared by all shards (for things every shard must agree on, e.g. vocabularies)
    pub fn global_rng(&self, tag: u64) -> Rng {
        Rng::new(self.seed.wrapping_mul(0xA24BAED4963EE407) ^ tag)
    }
    pub fn out_of_time(&mut self) -> bool {
        if self.only.is_some() {
            return false;
        }
        if self.start.elapsed() > self.soft_deadline {
            self.rep.inc("cases_skipped_deadline");
            true
        } else {
            false
        }
    }
    pub fn pick<T: Copy>(&self, quick: T, thorough: T) -> T {
        if self.thorough {
            thorough
        } else {
            quick
        }
    }
    pub fn replay(&self, idx: u64) -> serde_json::Value {
        serde_json::json!({"seed": self.seed, "case": idx, "tier": if self.thorough {"thorough"} else {"quick"}})
    }
}
