//! Wrapper over TokenParser (not Matcher) that keeps the precise StopReason visible and turns
//! panics into an explicit `Panicked` state instead of hiding them.

use crate::engine::GCase;
use anyhow::Result;
use llguidance::api::StopReason;
use llguidance::toktrie::SimpleVob;
use llguidance::{ParserFactory, TokenParser};
use std::panic::{catch_unwind, AssertUnwindSafe};

#[derive(Clone)]
pub struct Tp {
    pub p: TokenParser,
    pub panicked: bool,
}

#[derive(Debug, Clone, PartialEq)]
pub enum MaskErr {
    Stop(StopReason),
    Panic,
}

impl Tp {
    pub fn new(f: &ParserFactory, g: &GCase) -> Result<Tp> {
        let mut p = f.create_parser(g.top()?)?;
        p.start_without_prompt();
        Ok(Tp { p, panicked: false })
    }
    pub fn stop_reason(&self) -> StopReason {
        self.p.stop_reason()
    }
    pub fn stopped(&self) -> bool {
        self.panicked || self.p.stop_reason() != StopReason::NotStopped
    }
    pub fn is_resource_stop(&self) -> bool {
        matches!(self.p.stop_reason(), StopReason::LexerTooComplex | StopReason::ParserTooComplex | StopReason::MaxTokensTotal | StopReason::MaxTokensParser)
    }
    pub fn mask(&mut self) -> Result<SimpleVob, MaskErr> {
        match catch_unwind(AssertUnwindSafe(|| self.p.compute_mask())) {
            Ok(Ok(m)) => Ok(m),
            Ok(Err(_)) => Err(MaskErr::Stop(self.p.stop_reason())),
            Err(_) => {
                self.panicked = true;
                Err(MaskErr::Panic)
            }
        }
    }
    pub fn accepting(&mut self) -> bool {
        catch_unwind(AssertUnwindSafe(|| self.p.is_accepting())).unwrap_or(false)
    }
    /// commit + check_stop, like Matcher::consume_token
    pub fn consume(&mut self, t: u32) -> bool {
        let r = catch_unwind(AssertUnwindSafe(|| {
            let ok = self.p.consume_token(t).is_ok();
            if ok {
                let _ = self.p.check_stop();
            }
            ok
        }));
        match r {
            Ok(b) => b,
            Err(_) => {
                self.panicked = true;
                false
            }
        }
    }
}
