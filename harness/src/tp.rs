//! Wrapper over TokenParser (not Matcher) that keeps the precise StopReason visible and turns
//! panics into an explicit `Panicked` state instead of hiding them.

use crate::engine::GCase;
use anyhow::Result;
use llguidance::api::StopReason;
use llguidance::toktrie::SimpleVob;
use llguidance::{ParserFactory, TokenParser};
use std::panic::{catch_unwind, AssertUnwindSafe};

#[derive(Clone)]
pub struct Tp {
    pub p: TokenParser,
    pub panicked: bool,
    /// the last failing call was consume (whose generic failure is labelled ParserTooComplex by the library)
    pub last_fail_consume: bool,
}

#[derive(Debug, Clone, PartialEq)]
pub enum MaskErr {
    Stop(StopReason),
    Panic,
}

impl Tp {
    pub fn new(f: &ParserFactory, g: &GCase) -> Result<Tp> {
        let mut p = f.create_parser(g.top()?)?;
        p.start_without_prompt();
        Ok(Tp { p, panicked: false, last_fail_consume: false })
    }
    pub fn stop_reason(&self) -> StopReason {
        self.p.stop_reason()
    }
    pub fn stopped(&self) -> bool {
        self.panicked || self.p.stop_reason() != StopReason::NotStopped
    }
    /// documented resource-limit stop. `TokenParser::apply_token` labels EVERY failing commit (also a token
    /// the grammar simply rejects) ParserTooComplex, so after a failing consume only the parser-level
    /// error (item limit, lexer fuel / state limit) counts.
    pub fn is_resource_stop(&self) -> bool {
        if self.panicked {
            return false;
        }
        if std::panic::catch_unwind(AssertUnwindSafe(|| self.p.parser.get_error().is_some())).unwrap_or(false) {
            return true;
        }
        match self.p.stop_reason() {
            StopReason::MaxTokensTotal | StopReason::MaxTokensParser => true,
            StopReason::LexerTooComplex | StopReason::ParserTooComplex => !self.last_fail_consume,
            _ => false,
        }
    }
    pub fn mask(&mut self) -> Result<SimpleVob, MaskErr> {
        match catch_unwind(AssertUnwindSafe(|| self.p.compute_mask())) {
            Ok(Ok(m)) => Ok(m),
            Ok(Err(_)) => {
                self.last_fail_consume = false;
                Err(MaskErr::Stop(self.p.stop_reason()))
            }
            Err(_) => {
                self.panicked = true;
                Err(MaskErr::Panic)
            }
        }
    }
    pub fn accepting(&mut self) -> bool {
        catch_unwind(AssertUnwindSafe(|| self.p.is_accepting())).unwrap_or(false)
    }
    /// commit + check_stop, like Matcher::consume_token
    pub fn consume(&mut self, t: u32) -> bool {
        let r = catch_unwind(AssertUnwindSafe(|| {
            let ok = self.p.consume_token(t).is_ok();
            if ok {
                let _ = self.p.check_stop();
            }
            ok
        }));
        match r {
            Ok(b) => {
                if !b {
                    self.last_fail_consume = true;
                }
                b
            }
            Err(_) => {
                self.panicked = true;
                false
            }
        }
    }
}

/// A masked token refused by commit: the library labels every failing commit ParserTooComplex, and the row-size
/// limit is raised on exactly that path without any other trace. Decided on API values: the same history and
/// token on an engine with all limits relaxed -- if that engine takes the token, the refusal was the limit.
pub fn accepted_with_relaxed_limits(v: &crate::vocab::Vocab, slices: Option<Vec<String>>, g: &GCase, hist: &[u32], t: u32) -> bool {
    use llguidance::api::ParserLimits;
    let big = ParserLimits { max_items_in_row: 1 << 22, initial_lexer_fuel: u64::MAX / 4, step_lexer_fuel: u64::MAX / 4, step_max_items: 1 << 26, max_lexer_states: 1 << 22, max_grammar_size: 1 << 24, precompute_large_lexemes: false, verbose_errors: false };
    let fo = crate::engine::FactoryOpts { slices, ff_tokens: false, limits: Some(big) };
    catch_unwind(AssertUnwindSafe(|| {
        let Ok(f) = crate::engine::factory(v, &fo) else { return false };
        let Ok(mut tp) = Tp::new(&f, g) else { return false };
        for &h in hist {
            if !tp.consume(h) {
                return false;
            }
        }
        tp.consume(t)
    }))
    .unwrap_or(false)
}
