//! Token choice policies and sample-string generation through the masks.

use crate::engine::*;
use crate::rng::Rng;
use crate::vocab::Vocab;
use llguidance::toktrie::SimpleVob;
use llguidance::Matcher;

#[derive(Clone, Copy, Debug, PartialEq)]
pub enum Policy {
    Uniform,
    Extending,
    Closing,
}

const CLOSERS: &[u8] = b"\"}])>;.!0 1\n";

pub fn choose(rng: &mut Rng, mask: &SimpleVob, v: &Vocab, pol: Policy) -> Option<u32> {
    let allowed = mask_list(mask, v.n());
    if allowed.is_empty() {
        return None;
    }
    let eos_ok: Vec<u32> = v.eos_all.iter().copied().filter(|&e| mask.is_allowed(e)).collect();
    let eos_allowed = !eos_ok.is_empty();
    // a vocabulary with one EOS id takes no extra random number here
    let eos_pick = |rng: &mut Rng| if eos_ok.len() > 1 { *rng.pick(&eos_ok) } else { eos_ok[0] };
    match pol {
        Policy::Closing => {
            if eos_allowed && rng.chance(3, 4) {
                return Some(eos_pick(rng));
            }
            let cl: Vec<u32> = allowed
                .iter()
                .copied()
                .filter(|&t| {
                    let w = &v.words[t as usize];
                    !w.is_empty() && w[0] != 0xFF && w.iter().all(|b| CLOSERS.contains(b))
                })
                .collect();
            if !cl.is_empty() && rng.chance(4, 5) {
                return Some(*rng.pick(&cl));
            }
        }
        Policy::Extending => {
            let multi: Vec<u32> = allowed
                .iter()
                .copied()
                .filter(|&t| v.words[t as usize].len() >= 2 && v.words[t as usize][0] != 0xFF)
                .collect();
            if !multi.is_empty() && rng.chance(2, 3) {
                return Some(*rng.pick(&multi));
            }
            let non_eos: Vec<u32> = allowed.iter().copied().filter(|&t| !v.is_eos(t)).collect();
            if !non_eos.is_empty() {
                return Some(*rng.pick(&non_eos));
            }
        }
        Policy::Uniform => {
            // EOS is one of often hundreds of tokens; give it a fixed small chance instead
            if eos_allowed && rng.chance(1, 8) {
                return Some(eos_pick(rng));
            }
        }
    }
    Some(*rng.pick(&allowed))
}

pub fn policy_for_step(rng: &mut Rng, step: usize, budget: usize) -> Policy {
    if step * 3 > budget * 2 {
        Policy::Closing
    } else if rng.chance(1, 2) {
        Policy::Extending
    } else {
        Policy::Uniform
    }
}

/// Random walk through the masks; returns (tokens, stopped_normally).
pub fn walk(rng: &mut Rng, m: &mut Matcher, v: &Vocab, max_steps: usize) -> (Vec<u32>, bool) {
    let mut toks = vec![];
    for step in 0..max_steps {
        if m.is_stopped() {
            return (toks, m.stop_reason().is_ok());
        }
        let Ok(mask) = m.compute_mask() else {
            return (toks, m.stop_reason().is_ok());
        };
        let pol = policy_for_step(rng, step, max_steps);
        let Some(t) = choose(rng, &mask, v, pol) else {
            return (toks, false);
        };
        if m.consume_token(t).is_err() {
            return (toks, false);
        }
        toks.push(t);
    }
    (toks, m.is_stopped() && m.stop_reason().is_ok())
}

/// Byte strings the grammar generates, sampled through a V1 engine (used to cut Vsyn tokens).
pub fn sample_strings(rng: &mut Rng, g: &GCase, v1: &Vocab, n: usize, max_steps: usize) -> Vec<Vec<u8>> {
    let mut out = vec![];
    let Ok(f) = factory_noslice(v1) else { return out };
    for _ in 0..n {
        let Ok(mut m) = matcher(&f, g) else { return out };
        let (toks, _) = walk(rng, &mut m, v1, max_steps);
        let bytes: Vec<u8> = toks
            .iter()
            .filter(|&&t| (t as usize) < 255)
            .map(|&t| t as u8)
            .collect();
        if bytes.len() >= 2 {
            out.push(bytes);
        }
    }
    out
}
