//! C12: rollback restores exactly the earlier state. Random programs over commit / rollback /
//! reset / EOS / run-to-completion; after every rollback the engine is compared with a fresh
//! replay engine on all observables and then both are driven in lock-step.

use crate::cmp::*;
use crate::ctx::Ctx;
use crate::engine::*;
use crate::pool;
use crate::report::bytes_dbg;
use crate::rng::fnv;
use crate::vocab::Vocab;
use crate::walker::{self, Policy};
use serde_json::json;

fn viol(ctx: &mut Ctx, idx: u64, g: &GCase, v: &Vocab, hist: &[u32], ops: &[String], kind: &str, detail: serde_json::Value) {
    let d = json!({"case": pool::describe(ctx, g, v), "rolled_back_over_eos_id": v.eos_all.iter().any(|&e| crate::mon_c11::rolled_back_over(ops, e)), "history_after_rollback": hist, "history_bytes": bytes_dbg(&v.trie().decode_raw(hist)), "ops": ops, "oracle": detail});
    let rp = ctx.replay(idx);
    let tags = g.tags.clone();
    ctx.rep.violation(kind, &tags, d, rp);
}

fn run_case(ctx: &mut Ctx, idx: u64) {
    let mut rng = ctx.case_rng(idx);
    let twins = crate::mon_c11::twin_prefix_grammars();
    let g = crate::mon_c11::pick_grammar(&mut rng, idx, &twins);
    let vk = pool::pick_vkind(&mut rng, ctx.thorough);
    let mut v = pool::make_vocab(&mut rng, &g, vk);
    // one case in five: several EOS ids (rollback over a secondary EOS drops zero bytes too)
    if rng.chance(1, 5) {
        let cand: Vec<u32> = v
            .specials
            .iter()
            .copied()
            .filter(|&t| t != v.eos && v.words[t as usize].len() > 1 && !g.text.contains(&String::from_utf8_lossy(&v.words[t as usize][1..]).to_string()))
            .collect();
        if !cand.is_empty() {
            let extra = [*rng.pick(&cand)];
            v = v.with_extra_eos(&extra);
            ctx.rep.inc("multi_eos_cases");
        }
    }
    let Ok(f) = factory(&v, &FactoryOpts::default()) else { return };
    let Ok(mut m) = matcher(&f, &g) else {
        ctx.rep.inc("compile_errors");
        return;
    };
    if m.is_error() {
        ctx.rep.inc("compile_errors");
        return;
    }
    ctx.rep.inc("cases");
    let n_ops = ctx.pick(16, 36);
    let mut hist: Vec<u32> = vec![];
    let mut ops: Vec<String> = vec![];
    for _ in 0..n_ops {
        // ---- forward phase: commit k tokens (maybe up to completion, maybe EOS)
        let k = 1 + rng.below(5);
        let to_completion = rng.chance(1, 6);
        let via_fresh = rng.chance(1, 2);
        // a blind phase in three hands all its tokens to the engine in ONE consume_tokens call
        let batch = via_fresh && rng.chance(1, 3);
        let mut pending: Vec<u32> = vec![];
        let mut committed = 0;
        for step in 0..(if to_completion { 60 } else { k }) {
            if m.is_stopped() {
                break;
            }
            let pol = if to_completion { Policy::Closing } else { walker::policy_for_step(&mut rng, step, 12) };
            let t = if via_fresh {
                // commit without any mask computation on the engine under test
                let Some(t) = choose_via_fresh(&mut rng, &f, &g, &v, &hist, pol) else { break };
                t
            } else {
                let Ok(mask) = m.compute_mask() else { break };
                let Some(t) = walker::choose(&mut rng, &mask, &v, pol) else { break };
                t
            };
            if batch {
                pending.push(t);
                hist.push(t);
                committed += 1;
                continue;
            }
            if m.consume_token(t).is_err() {
                if via_fresh {
                    if crate::tp::accepted_with_relaxed_limits(&v, None, &g, &hist, t) {
                        ctx.rep.inconclusive("resource_stop");
                        return;
                    }
                    viol(ctx, idx, &g, &v, &hist, &ops, "token_from_fresh_mask_rejected", json!({"token": t}));
                    return;
                }
                break;
            }
            hist.push(t);
            committed += 1;
            ops.push(format!("commit {t}"));
        }
        if !pending.is_empty() {
            let base = hist.len() - pending.len();
            if m.consume_tokens(&pending).is_err() {
                let ok_relaxed = (0..pending.len()).all(|i| crate::tp::accepted_with_relaxed_limits(&v, None, &g, &hist[..base + i], pending[i]));
                if ok_relaxed {
                    ctx.rep.inconclusive("resource_stop");
                    return;
                }
                viol(ctx, idx, &g, &v, &hist[..base], &ops, "tokens_from_fresh_masks_rejected_in_one_call", json!({"tokens": pending}));
                return;
            }
            for t in &pending {
                ops.push(format!("commit {t}"));
            }
            ops.push(format!("^ last {} in one consume_tokens call", pending.len()));
            ctx.rep.inc("batch_commits");
        }
        if is_resource_stop(&m) {
            ctx.rep.inconclusive("resource_stop");
            return;
        }
        if m.is_error() {
            break;
        }
        if hist.is_empty() {
            break;
        }
        // ---- "rolling back k and then committing other tokens": when this forward phase followed a rollback and ran
        // without a single query on the engine under test, all behaviour on the new continuation must already equal
        // that of an engine that never saw the rolled-back tokens
        if via_fresh && committed > 0 && !m.is_stopped() && ops.iter().any(|o| o.starts_with("rollback") || o == "reset") {
            match compare_queries_with_fresh(&mut rng, &mut m, &f, &g, &v, &hist, &ALL_QUERIES, true) {
                Ok(n) => {
                    ctx.rep.add("observable_checks", n as u64);
                    ctx.rep.inc("blind_continuations_checked");
                }
                Err((kind, detail)) => {
                    viol(ctx, idx, &g, &v, &hist, &ops, &format!("after_rollback_and_blind_commits_{kind}"), detail);
                    return;
                }
            }
        }
        // ---- rollback phase
        let j = match rng.below(6) {
            0 => hist.len(),
            1 => 1,
            _ => 1 + rng.below(hist.len()),
        };
        let stopped_before = m.is_stopped();
        let had_eos = hist[hist.len() - j..].iter().any(|&t| v.is_eos(t));
        let r = if j == hist.len() && rng.chance(1, 2) {
            ops.push("reset".into());
            m.reset()
        } else {
            ops.push(format!("rollback {j}"));
            m.rollback(j)
        };
        if r.is_err() {
            // grammars that cannot roll back report it; that is allowed, but the engine must say so consistently
            ctx.rep.inc("rollback_refused");
            return;
        }
        hist.truncate(hist.len() - j);
        ctx.rep.inc("rollbacks");
        if stopped_before {
            ctx.rep.inc("rollbacks_from_stopped");
        }
        if had_eos {
            ctx.rep.inc("rollbacks_over_eos");
        }
        // ---- compare with a fresh replay
        match compare_queries_with_fresh(&mut rng, &mut m, &f, &g, &v, &hist, &ALL_QUERIES, true) {
            Ok(n) => ctx.rep.add("observable_checks", n as u64),
            Err((kind, detail)) => {
                viol(ctx, idx, &g, &v, &hist, &ops, &format!("after_rollback_{kind}"), detail);
                return;
            }
        }
        // validate probes
        let Some(mut fr) = fresh_replay(&f, &g, &hist) else {
            viol(ctx, idx, &g, &v, &hist, &ops, "fresh_replay_failed", json!({}));
            return;
        };
        for _ in 0..3 {
            let mut w = fr.deep_clone();
            let (mut seq, _) = walker::walk(&mut rng, &mut w, &v, 3);
            if rng.chance(1, 2) {
                seq.push(rng.below(v.n()) as u32);
            }
            if seq.is_empty() {
                continue;
            }
            let a = m.validate_tokens(&seq).ok();
            let b = fr.validate_tokens(&seq).ok();
            ctx.rep.inc("validate_probe_checks");
            if a != b {
                viol(ctx, idx, &g, &v, &hist, &ops, "after_rollback_validate_differs", json!({"seq": seq, "tested": a, "fresh": b}));
                return;
            }
        }
        // lock-step continuation on clones so the program can go on from the rolled-back state
        let mut a = m.deep_clone();
        match lockstep(&mut rng, &mut a, &mut fr, &v, ctx.pick(6, 12)) {
            Ok(n) => ctx.rep.add("lockstep_masks", n as u64),
            Err((kind, detail)) => {
                viol(ctx, idx, &g, &v, &hist, &ops, &format!("after_rollback_{kind}"), detail);
                return;
            }
        }
        if j >= 2 || stopped_before || had_eos {
            ctx.rep.nontrivial(g.hash() ^ fnv(ops.join(",").as_bytes()) ^ fnv(v.name.as_bytes()).rotate_left(7));
        }
    }
    ctx.rep.sample(json!({"grammar": g.name, "vocab": v.name, "program": ops.iter().take(30).collect::<Vec<_>>()}));
}

pub fn run(ctx: &mut Ctx) {
    let n_cases = ctx.pick(2500, 50000);
    for idx in 0..n_cases {
        if !ctx.mine(idx) {
            continue;
        }
        if ctx.out_of_time() {
            break;
        }
        run_case(ctx, idx);
    }
}
