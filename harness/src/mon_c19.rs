//! C19: special tokens are allowed only where the grammar names them.

use crate::ctx::Ctx;
use crate::engine::*;
use crate::pool::{self, VKind};
use crate::report::bytes_dbg;
use crate::rng::{fnv, Rng};
use crate::vocab::{self, Vocab};
use crate::walker;
use serde_json::json;
use std::collections::BTreeSet;
use toktrie::TokenizerEnv;

// ------------------------------------------------------------------ (a) text grammars never allow specials

fn text_grammars(rng: &mut Rng, idx: u64) -> GCase {
    match rng.below(12) {
        0 => GCase::lark("sp_lit", "start: \"<a>\" /x+/ \"<|end|>\"\n"),
        1 => GCase::lark("sp_think", "start: \"<think>\" /[a-z ]*/ \"</think>\" \"<1>\"\n"),
        2 => GCase::regex("sp_rx", "<[a-z|/]+>( <[a-z|/]+>)*"),
        3 => GCase::json("sp_json", r#"{"type":"object","properties":{"<a>":{"type":"string"},"tag":{"enum":["<b>","<|tool|>","<x>"]}},"additionalProperties":{"type":"string"}}"#),
        4 => GCase::lark("sp_any", "start: /(.|\\n)*/\n"),
        5 => GCase::lark("sp_anys", "start: /(?s:.*)/ \"!\"\n"),
        6 => GCase::lark("sp_ignore", "start: \"<\" NAME \">\"\nNAME: /[a-z]+/\n%ignore /[ <>]+/\n"),
        7 => GCase::lark("sp_neg", "start: T\nT: /[^a]*/\n"),
        8 => GCase::lark("sp_guarded_not", "start: T\nT: ~/b+/ & /(?s:.*)/\n"),
        9 => GCase::lark("sp_raw_not", "start: T\nT: ~/b+/\n").tag("raw_complement"),
        10 => GCase::lark("sp_raw_not2", "start: \"<\" T\nT: ~/(?s:.*)zz(?s:.*)/\n").tag("raw_complement"),
        _ => {
            let g = pool::grammar(rng, 1_000_000 + idx);
            g
        }
    }
}

fn text_case(ctx: &mut Ctx, idx: u64) {
    let mut rng = ctx.case_rng(idx);
    let g = text_grammars(&mut rng, idx);
    if g.has_tag("special_token_ref") {
        return;
    }
    let vk = match rng.below(6) {
        0 | 1 => VKind::V1,
        2 => VKind::V1c,
        3 => VKind::Vsyn,
        4 => VKind::VsynC,
        _ => VKind::Bpe(rng.below(2)),
    };
    let v = pool::make_vocab(&mut rng, &g, vk);
    let Ok(f) = factory(&v, &FactoryOpts::default()) else { return };
    let Ok(mut m) = matcher(&f, &g) else { return };
    if m.is_error() {
        return;
    }
    ctx.rep.inc("text_cases");
    let marker_tok = v.trie().token_id(&[0xFF]);
    let mut hist: Vec<u32> = vec![];
    let steps = ctx.pick(20, 50);
    for step in 0..steps {
        if m.is_stopped() {
            break;
        }
        let Ok(mask) = m.compute_mask() else { break };
        let acc = m.is_accepting().unwrap_or(false);
        ctx.rep.inc("states");
        ctx.rep.add("special_ids_checked", v.specials.len() as u64);
        for &s in &v.specials {
            if mask.is_allowed(s) && !(acc && s == v.eos) {
                let d = json!({"grammar": g.text, "vocab": v.name, "history": hist, "history_bytes": bytes_dbg(&v.trie().decode_raw(&hist)), "special_token": s, "special_bytes": bytes_dbg(&v.words[s as usize]), "accepting": acc});
                let rp = ctx.replay(idx);
                ctx.rep.violation("special_token_allowed_by_text_grammar", &g.tags, d, rp);
                return;
            }
        }
        if let Some(mt) = marker_tok {
            if mask.is_allowed(mt) {
                let d = json!({"grammar": g.text, "vocab": v.name, "history": hist});
                let rp = ctx.replay(idx);
                ctx.rep.violation("bare_marker_token_allowed", &g.tags, d, rp);
                return;
            }
        }
        // validate / commit agree that specials are refused (on clones)
        if step % 4 == 0 {
            let s = *rng.pick(&v.specials);
            if !(acc && s == v.eos) {
                let val = m.deep_clone().validate_tokens(&[s]).unwrap_or(0);
                let com = m.deep_clone().consume_token(s).is_ok();
                if val != 0 || com {
                    let d = json!({"grammar": g.text, "vocab": v.name, "history": hist, "special_token": s, "special_bytes": bytes_dbg(&v.words[s as usize]), "validate": val, "commit_ok": com, "in_mask": mask.is_allowed(s)});
                    let rp = ctx.replay(idx);
                    ctx.rep.violation("special_token_accepted_by_text_grammar", &g.tags, d, rp);
                    return;
                }
            }
        }
        let pol = walker::policy_for_step(&mut rng, step, steps);
        let Some(t) = walker::choose(&mut rng, &mask, &v, pol) else { break };
        if m.consume_token(t).is_err() {
            break;
        }
        hist.push(t);
    }
    if hist.len() >= 2 {
        ctx.rep.nontrivial(g.hash() ^ fnv(&hist.iter().flat_map(|t| t.to_le_bytes()).collect::<Vec<u8>>()) ^ fnv(v.name.as_bytes()));
    }
    if idx % 80 == 0 {
        ctx.rep.sample(json!({"workload": "text", "grammar": g.text.chars().take(120).collect::<String>(), "vocab": v.name, "history_bytes": bytes_dbg(&v.trie().decode_raw(&hist)).chars().take(100).collect::<String>()}));
    }
}

// ------------------------------------------------------------------ (b) token references denote exactly their sets

#[derive(Clone, Debug)]
enum Atom {
    Text(String),
    Toks(String, BTreeSet<u32>),
}

fn tok_atom(rng: &mut Rng, v: &Vocab) -> Atom {
    let n = v.n() as u32;
    let interesting = [0u32, 1, 31, 32, 33, 254, 255, 256, n - 2, n - 1, n / 2];
    let pick = |rng: &mut Rng| if rng.chance(1, 2) { *rng.pick(&interesting) } else { rng.below(n as usize) as u32 };
    match rng.below(6) {
        0 => {
            // <name>
            let s = *rng.pick(&v.specials);
            let name = String::from_utf8_lossy(v.words[s as usize].get(1..).unwrap_or(&[])).to_string();
            if name.is_empty() || name.contains(' ') || name.contains('"') || name.contains('[') {
                let id = pick(rng);
                return Atom::Toks(format!("<[{id}]>"), [id].into_iter().collect());
            }
            Atom::Toks(name, [s].into_iter().collect())
        }
        1 => {
            let id = pick(rng);
            Atom::Toks(format!("<[{id}]>"), [id].into_iter().collect())
        }
        2..=4 => {
            // list of ranges; later entries are often built from the previous one (adjacent single id,
            // adjacent range, overlap extending by one, nested, duplicate), listed in random order
            let negate = rng.chance(2, 5);
            let k = 1 + rng.below(4);
            let mut rs: Vec<(u32, u32)> = vec![];
            for i in 0..k {
                let r = if i > 0 && rng.chance(2, 3) {
                    let (pa, pb) = rs[rng.below(rs.len())];
                    match rng.below(7) {
                        0 if pb + 1 < n => (pb + 1, pb + 1),
                        1 if pb + 1 < n => (pb + 1, (pb + 1 + rng.below(5) as u32).min(n - 1)),
                        2 if pb + 1 < n => (pa + rng.below((pb - pa + 1) as usize) as u32, pb + 1),
                        3 if pa > 0 => (pa - 1, pa - 1),
                        4 if pa > 0 => (pa.saturating_sub(1 + rng.below(4) as u32), pa - 1),
                        5 => (pa, pb),
                        _ => {
                            let x = pa + rng.below((pb - pa + 1) as usize) as u32;
                            (x, x + rng.below((pb - x + 1) as usize) as u32)
                        }
                    }
                } else {
                    let a = pick(rng);
                    let w = if rng.chance(1, 3) { 0 } else { rng.below(if negate { 200 } else { 40 }) as u32 };
                    (a, (a + w).min(n - 1))
                };
                rs.push(r);
            }
            // random order
            for i in (1..rs.len()).rev() {
                let j = rng.below(i + 1);
                rs.swap(i, j);
            }
            let parts: Vec<String> = rs.iter().map(|&(a, b)| if a == b { format!("{a}") } else { format!("{a}-{b}") }).collect();
            let mut listed = BTreeSet::new();
            for &(a, b) in &rs {
                listed.extend(a..=b);
            }
            if negate {
                let set: BTreeSet<u32> = (0..n).filter(|t| !listed.contains(t)).collect();
                Atom::Toks(format!("<[^{}]>", parts.join(",")), set)
            } else {
                Atom::Toks(format!("<[{}]>", parts.join(",")), listed)
            }
        }
        _ => Atom::Toks("<[*]>".into(), (0..n).collect()),
    }
}

fn ref_case(ctx: &mut Ctx, idx: u64) {
    let mut rng = ctx.case_rng(idx);
    let v = match rng.below(4) {
        0 => vocab::v1(false),
        1 => vocab::v1(true),
        2 => {
            let mut r2 = rng.fork(1);
            vocab::vsyn(&mut r2, &vocab::generic_samples(), 100 + rng.below(300), rng.chance(1, 2), "VsynR")
        }
        _ => pool::bpe_vocabs().first().cloned().unwrap_or_else(|| vocab::v1(true)),
    };
    // grammar: alternatives sharing the text skeleton  "x" A "y" B "z"
    let n_alt = 1 + rng.below(3);
    let lits = ["q", "w", "k"];
    let mut alts: Vec<Vec<Atom>> = vec![];
    for _ in 0..n_alt {
        alts.push(vec![Atom::Text(lits[0].into()), tok_atom(&mut rng, &v), Atom::Text(lits[1].into()), tok_atom(&mut rng, &v), Atom::Text(lits[2].into())]);
    }
    let text = format!(
        "start: {}\n",
        alts.iter()
            .map(|a| a.iter().map(|x| match x { Atom::Text(t) => format!("\"{t}\""), Atom::Toks(s, _) => s.clone() }).collect::<Vec<_>>().join(" "))
            .collect::<Vec<_>>()
            .join(" | ")
    );
    let g = GCase::lark("c19ref", &text).tag("special_token_ref");
    let Ok(f) = factory(&v, &FactoryOpts::default()) else { return };
    let mut m = match matcher(&f, &g) {
        Ok(m) if !m.is_error() => m,
        Ok(m) => {
            let rp = ctx.replay(idx);
            ctx.rep.violation("token_reference_grammar_rejected", &g.tags, json!({"grammar": text, "error": m.get_error().map(|e| e.lines().next().unwrap_or("").to_string())}), rp);
            return;
        }
        Err(e) => {
            let rp = ctx.replay(idx);
            ctx.rep.violation("token_reference_grammar_rejected", &g.tags, json!({"grammar": text, "error": e.to_string().lines().next()}), rp);
            return;
        }
    };
    ctx.rep.inc("ref_cases");
    let mut live: Vec<usize> = (0..n_alt).collect();
    let mut hist: Vec<u32> = vec![];
    // a committed token that belongs to two different token-range lexemes of different alternatives
    let mut overlap_earlier = false;
    macro_rules! viol {
        ($kind:expr, $detail:expr) => {{
            let d = json!({"grammar": text, "vocab": v.name, "n_vocab": v.n(), "history": hist, "token_matched_two_different_ranges_earlier": overlap_earlier, "oracle": $detail});
            let rp = ctx.replay(idx);
            ctx.rep.violation($kind, &g.tags, d, rp);
            return;
        }};
    }
    for pos in 0..5 {
        if m.is_stopped() {
            viol!("stopped_inside_grammar", json!({"pos": pos}));
        }
        // denoted set at a token-reference position (union over the alternatives still alive)
        let denoted: Option<BTreeSet<u32>> = match &alts[live[0]][pos] {
            Atom::Toks(_, _) => {
                let mut want: BTreeSet<u32> = BTreeSet::new();
                for &a in &live {
                    if let Atom::Toks(_, s) = &alts[a][pos] {
                        want.extend(s.iter().copied());
                    }
                }
                Some(want)
            }
            _ => None,
        };
        if denoted.as_ref().is_some_and(|w| w.is_empty()) {
            // a reference that denotes no token at all (e.g. <[^0-MAX]>): nothing to compare
            ctx.rep.inc("empty_denoted_set_skipped");
            return;
        }
        let got: BTreeSet<u32> = match m.compute_mask() {
            Ok(mask) => mask_list(&mask, v.n()).into_iter().collect(),
            // at a token reference a failing mask is an empty mask: judged against the denoted set below
            Err(_) if denoted.is_some() => BTreeSet::new(),
            Err(_) => viol!("mask_error", json!({"pos": pos})),
        };
        ctx.rep.inc("positions_checked");
        match &alts[live[0]][pos] {
            Atom::Text(t) => {
                // text position: exactly the tokens that are a non-empty prefix of the literal (single byte here)
                let b = t.as_bytes()[0];
                let want: BTreeSet<u32> = (0..v.n() as u32).filter(|&x| v.words[x as usize] == [b]).collect();
                if got != want {
                    viol!("text_position_mask_wrong", json!({"pos": pos, "literal": t, "unexpected": got.difference(&want).take(8).collect::<Vec<_>>(), "missing": want.difference(&got).take(8).collect::<Vec<_>>()}));
                }
                let tok = *want.iter().next().unwrap();
                if m.consume_token(tok).is_err() {
                    viol!("literal_byte_rejected", json!({"pos": pos}));
                }
                hist.push(tok);
            }
            Atom::Toks(_, _) => {
                let want: BTreeSet<u32> = denoted.clone().unwrap();
                ctx.rep.add("token_ids_compared", v.n() as u64);
                if got != want {
                    viol!("token_reference_mask_differs_from_denoted_set", json!({"pos": pos, "refs": live.iter().map(|&a| match &alts[a][pos] { Atom::Toks(s, _) => s.clone(), _ => String::new() }).collect::<Vec<_>>(),
                        "unexpected": got.difference(&want).take(8).collect::<Vec<_>>(), "missing": want.difference(&got).take(8).collect::<Vec<_>>(), "got_len": got.len(), "want_len": want.len()}));
                }
                // validate/commit agree for a sample of ids (range ends)
                let mut probes: Vec<u32> = vec![0, v.n() as u32 - 1, v.eos];
                for &w in want.iter().take(1) {
                    probes.push(w);
                    probes.push(w.saturating_sub(1));
                }
                if let Some(&w) = want.iter().next_back() {
                    probes.push(w);
                    probes.push((w + 1).min(v.n() as u32 - 1));
                }
                for t in probes {
                    let exp = want.contains(&t);
                    let val = m.deep_clone().validate_tokens(&[t]).map(|k| k == 1).unwrap_or(false);
                    let com_r = m.deep_clone().consume_token(t);
                    let com = com_r.is_ok();
                    ctx.rep.inc("probe_checks");
                    if val != exp || com != exp {
                        viol!("token_reference_validate_or_commit_differs", json!({"pos": pos, "token": t, "token_bytes": crate::report::bytes_dbg(&v.words[t as usize]), "denoted": exp, "validate": val, "commit": com, "trie_id_of_these_bytes": v.trie().token_id(&v.words[t as usize]), "canonical": v.canonical,
                            "diagnostic": com_r.err().map(|e| e.to_string().lines().next().unwrap_or("").to_string())}));
                    }
                }
                let choices: Vec<u32> = want.iter().copied().collect();
                let t = *rng.pick(&choices);
                if m.consume_token(t).is_err() {
                    viol!("denoted_token_rejected", json!({"pos": pos, "token": t}));
                }
                hist.push(t);
                live.retain(|&a| matches!(&alts[a][pos], Atom::Toks(_, s) if s.contains(&t)));
                let names: BTreeSet<String> = live.iter().map(|&a| match &alts[a][pos] { Atom::Toks(n, _) => n.clone(), _ => String::new() }).collect();
                if names.len() >= 2 {
                    overlap_earlier = true;
                    ctx.rep.inc("overlapping_range_commits");
                }
                if t == v.eos {
                    // the EOS id consumed as an ordinary token: nothing more to compare reliably
                }
            }
        }
    }
    ctx.rep.nontrivial(fnv(text.as_bytes()) ^ fnv(v.name.as_bytes()));
    if idx % 80 == 1 {
        ctx.rep.sample(json!({"workload": "token_references", "grammar": text, "vocab": v.name, "history": hist}));
    }
}

// ------------------------------------------------------------------ (c) tokenisation of names vs markers

fn tokenize_case(ctx: &mut Ctx, idx: u64) {
    let mut rng = ctx.case_rng(idx);
    let mut envs: Vec<(String, toktrie::TokEnv)> = vec![];
    envs.push(("approximate_v1".into(), vocab::v1(true).env.clone()));
    {
        let mut r2 = rng.fork(2);
        envs.push(("approximate_vsyn".into(), vocab::vsyn(&mut r2, &vocab::generic_samples(), 200, true, "VsynT").env.clone()));
    }
    if let Some(b) = pool::bpe_vocabs().first() {
        envs.push(("tiktoken".into(), b.env.clone()));
    }
    for (name, env) in envs {
        let trie = env.tok_trie();
        let specials: Vec<u32> = (0..trie.vocab_size() as u32).filter(|&t| trie.is_special_token(t) && trie.token(t).len() > 1).collect();
        for &s in specials.iter().take(12) {
            let nm = trie.token(s)[1..].to_vec();
            if nm.contains(&b'[') {
                continue;
            }
            ctx.rep.inc("tokenize_checks");
            // plain text spelling the name
            let mut text = b"say ".to_vec();
            text.extend_from_slice(&nm);
            text.extend_from_slice(b" now");
            let toks = env.tokenize_bytes(&text);
            if toks.iter().any(|&t| trie.is_special_token(t)) {
                let rp = ctx.replay(idx);
                ctx.rep.violation("name_in_plain_text_tokenised_as_special", &[name.clone()], json!({"env": name, "text": bytes_dbg(&text), "tokens": toks}), rp);
                return;
            }
            if trie.decode_raw(&toks) != text {
                let rp = ctx.replay(idx);
                ctx.rep.violation("plain_text_roundtrip", &[name.clone()], json!({"env": name, "text": bytes_dbg(&text), "tokens": toks}), rp);
                return;
            }
            // marker form: exactly the special id
            let mut mk = b"say ".to_vec();
            mk.push(0xFF);
            mk.extend_from_slice(&nm);
            mk.extend_from_slice(b" now");
            let (toks, _fixed) = env.tokenize_bytes_marker(&mk);
            if toks.iter().filter(|&&t| t == s).count() != 1 || toks.iter().any(|&t| trie.is_special_token(t) && t != s) {
                let rp = ctx.replay(idx);
                ctx.rep.violation("marker_form_not_tokenised_to_the_special_id", &[name.clone()], json!({"env": name, "text": bytes_dbg(&mk), "tokens": toks, "special": s}), rp);
                return;
            }
            // numeric form \xFF[id]
            let id = rng.below(trie.vocab_size()) as u32;
            let mut nk = b"a".to_vec();
            nk.push(0xFF);
            nk.extend_from_slice(format!("[{id}]").as_bytes());
            nk.extend_from_slice(b"b");
            let (toks, _) = env.tokenize_bytes_marker(&nk);
            if toks.iter().filter(|&&t| t == id).count() < 1 {
                let rp = ctx.replay(idx);
                ctx.rep.violation("numeric_marker_form_not_tokenised_to_the_id", &[name.clone()], json!({"env": name, "tokens": toks, "id": id}), rp);
                return;
            }
        }
    }
    ctx.rep.nontrivial(idx ^ 0x70c);
}

pub fn run(ctx: &mut Ctx) {
    let n_cases = ctx.pick(9000, 600000);
    for idx in 0..n_cases {
        if !ctx.mine(idx) {
            continue;
        }
        if ctx.out_of_time() {
            break;
        }
        match idx % 8 {
            0..=3 => text_case(ctx, idx),
            4..=6 => ref_case(ctx, idx),
            _ => tokenize_case(ctx, idx),
        }
    }
    let _: Option<&Vocab> = None;
}
