//! C05: a Lark context-free grammar admits exactly the grammar's language.
//! Oracle: textbook byte-level Earley recogniser on the harness's own copy of the grammar.

use crate::ctx::Ctx;
use crate::engine::*;
use crate::gen_cfg::{self, Cfg};
use crate::ref_earley::{Bnf, Earley};
use crate::report::bytes_dbg;
use crate::rng::Rng;
use crate::vocab::{self, Vocab};
use llguidance::Matcher;
use serde_json::json;

fn compare_node(m: &mut Matcher, e: &Earley, prefix: &[u8]) -> Result<(), (String, serde_json::Value)> {
    let nb = e.next_bytes();
    let can_extend = nb.iter().any(|&x| x);
    if m.is_stopped() {
        let ok = m.stop_reason() == llguidance::api::StopReason::NoExtension && e.accepting() && !can_extend;
        if !ok {
            return Err(("stopped_but_language_continues".into(), json!({"prefix": bytes_dbg(prefix), "stop": format!("{:?}", m.stop_reason()), "ref_accepting": e.accepting(), "ref_can_extend": can_extend})));
        }
        return Ok(());
    }
    let acc = m.is_accepting().map_err(|_| ("is_accepting_error".to_string(), json!({"prefix": bytes_dbg(prefix)})))?;
    if acc != e.accepting() {
        return Err(("accepting_differs".into(), json!({"prefix": bytes_dbg(prefix), "engine": acc, "reference": e.accepting()})));
    }
    let mask = match m.compute_mask() {
        Ok(x) => x,
        Err(_) => {
            note_failed_hist(&prefix.iter().map(|&b| b as u32).collect::<Vec<_>>());
            return Err(("mask_error_on_viable_prefix".into(), json!({"prefix": bytes_dbg(prefix), "stop": format!("{:?}", m.stop_reason())})));
        }
    };
    for b in 0..=254usize {
        if mask.is_allowed(b as u32) != nb[b] {
            return Err(("next_byte_differs".into(), json!({"prefix": bytes_dbg(prefix), "byte": b, "engine_allows": mask.is_allowed(b as u32), "reference_allows": nb[b]})));
        }
    }
    Ok(())
}

struct Dfs<'a> {
    sigma: &'a [u8],
    max_len: usize,
    nodes: usize,
    budget: usize,
    truncated: bool,
    prefix: Vec<u8>,
    accepted: usize,
}

impl<'a> Dfs<'a> {
    fn go(&mut self, m: &Matcher, e: &mut Earley) -> Result<(), (String, serde_json::Value)> {
        self.nodes += 1;
        let mut me = m.clone();
        compare_node(&mut me, e, &self.prefix)?;
        if e.accepting() {
            self.accepted += 1;
        }
        if self.prefix.len() >= self.max_len || me.is_stopped() {
            return Ok(());
        }
        for &b in self.sigma {
            if !e.push(b) {
                continue;
            }
            if self.nodes >= self.budget {
                self.truncated = true;
                e.pop();
                return Ok(());
            }
            let mut c = me.clone();
            self.prefix.push(b);
            let r = if c.consume_token(b as u32).is_err() {
                Err(("viable_byte_rejected_on_commit".into(), json!({"prefix": bytes_dbg(&self.prefix)})))
            } else {
                self.go(&c, e)
            };
            self.prefix.pop();
            e.pop();
            r?;
        }
        Ok(())
    }
}

fn sample_sentence(rng: &mut Rng, e: &mut Earley, max: usize) -> Option<Vec<u8>> {
    let n0 = e.len();
    let mut out = vec![];
    for step in 0..max {
        if e.accepting() && (rng.chance(1, 5) || step * 2 > max) {
            break;
        }
        let nb = e.next_bytes();
        let opts: Vec<u8> = (0..=254u8).filter(|&b| nb[b as usize]).collect();
        if opts.is_empty() {
            break;
        }
        let b = *rng.pick(&opts);
        e.push(b);
        out.push(b);
    }
    let ok = e.accepting();
    e.truncate(n0);
    if ok {
        Some(out)
    } else {
        Some(out) // a viable prefix is still useful for the V-loop
    }
}

/// Long walk through the reference language that prefers to repeat the previous byte (long runs reach the
/// ends of wide bounded repetitions); at EVERY prefix the full single-byte mask is compared with the reference.
fn long_walk(rng: &mut Rng, m: &Matcher, bnf: &Bnf, max: usize) -> Result<usize, (String, serde_json::Value)> {
    let mut me = m.clone();
    let mut er = Earley::new(bnf);
    let mut prefix: Vec<u8> = vec![];
    let mut checked = 0;
    for _ in 0..max {
        compare_node(&mut me, &er, &prefix)?;
        checked += 1;
        if me.is_stopped() {
            break;
        }
        let nb = er.next_bytes();
        let opts: Vec<u8> = (0..=254u8).filter(|&b| nb[b as usize]).collect();
        if opts.is_empty() || (er.accepting() && rng.chance(1, 10)) {
            break;
        }
        let b = match prefix.last() {
            Some(&l) if nb[l as usize] && rng.chance(7, 8) => l,
            _ => *rng.pick(&opts),
        };
        if me.consume_token(b as u32).is_err() {
            return Err(("derivable_byte_rejected".into(), json!({"prefix": bytes_dbg(&prefix), "byte": b})));
        }
        er.push(b);
        prefix.push(b);
    }
    Ok(checked)
}

fn run_case(ctx: &mut Ctx, idx: u64, v1: &Vocab) {
    let mut rng = ctx.case_rng(idx);
    let hand = gen_cfg::handwritten();
    let (cfg, class): (Cfg, &str) = match rng.below(10) {
        0 | 1 => (hand[rng.below(hand.len())].clone(), "handwritten"),
        2..=4 => (gen_cfg::random_parametric(&mut rng), "parametric"),
        _ => (gen_cfg::random_cfg(&mut rng), "random"),
    };
    let g = cfg.to_case(&format!("c05_{class}{idx}"));
    let bnf = match Bnf::from_cfg(&cfg) {
        Ok(b) => b,
        Err(_) => {
            ctx.rep.inconclusive("reference_too_big");
            return;
        }
    };
    if !bnf.start_productive() {
        ctx.rep.inc("empty_language_skipped");
        return;
    }
    let mut tags = g.tags.clone();
    if bnf.pruned {
        // the engine has no productivity pruning; judged separately
        tags.push("unproductive".into());
        ctx.rep.inc("unproductive_class");
    }
    let Ok(f1) = factory_noslice(v1) else { return };
    let m = match matcher(&f1, &g) {
        Ok(m) if !m.is_error() => m,
        Ok(m) => {
            let d = json!({"grammar": g.text, "error": m.get_error()});
            let rp = ctx.replay(idx);
            ctx.rep.violation("generated_grammar_rejected", &tags, d, rp);
            return;
        }
        Err(e) => {
            let d = json!({"grammar": g.text, "error": e.to_string().lines().take(4).collect::<Vec<_>>()});
            let rp = ctx.replay(idx);
            ctx.rep.violation("generated_grammar_rejected", &tags, d, rp);
            return;
        }
    };
    ctx.rep.inc("cases");
    ctx.rep.inc(&format!("class.{class}"));
    macro_rules! viol {
        ($kind:expr, $detail:expr) => {{
            if $kind.starts_with("mask_error") && LAST_FAILED_HIST.with(|h| resource_stop_on_replay(&f1, &g, &h.borrow())) {
                // documented resource-limit stop (the Matcher reports it as InternalError)
                ctx.rep.inconclusive("resource_stop");
                return;
            }
            let d = json!({"grammar": g.text, "class": class, "oracle": $detail});
            let rp = ctx.replay(idx);
            ctx.rep.violation($kind, &tags, d, rp);
            return;
        }};
    }
    let mut sigma = cfg.alphabet();
    rng.shuffle(&mut sigma);
    sigma.truncate(ctx.pick(5, 6));
    if sigma.len() < 6 {
        sigma.push(b'~'); // foreign byte
    }
    sigma.sort();
    let max_len = ctx.pick(6, 8);
    let mut e = Earley::new(&bnf);
    let mut dfs = Dfs { sigma: &sigma, max_len, nodes: 0, budget: ctx.pick(1500, 25000), truncated: false, prefix: vec![], accepted: 0 };
    if let Err((k, det)) = dfs.go(&m, &mut e) {
        viol!(&k, json!({"phase": "dfs", "sigma": bytes_dbg(&sigma), "detail": det}));
    }
    ctx.rep.add("dfs_nodes", dfs.nodes as u64);
    ctx.rep.add("mask_bytes_compared", dfs.nodes as u64 * 255);
    ctx.rep.add("accepted_strings_seen", dfs.accepted as u64);
    if dfs.truncated {
        ctx.rep.inc("dfs_truncated");
    } else {
        ctx.rep.inc("dfs_exhaustive");
    }
    if dfs.nodes >= 8 && dfs.accepted >= 1 {
        ctx.rep.nontrivial(g.hash());
    }
    for _ in 0..ctx.pick(2, 5) {
        match long_walk(&mut rng, &m, &bnf, 70) {
            Ok(n) => {
                ctx.rep.add("long_walk_states", n as u64);
                ctx.rep.add("mask_bytes_compared", n as u64 * 255);
            }
            Err((k, det)) => viol!(&k, json!({"phase": "long_walk", "detail": det})),
        }
    }
    // long sentences byte by byte + V-loop on a grammar-specific multi-byte vocabulary
    let mut e = Earley::new(&bnf);
    let mut samples: Vec<Vec<u8>> = vec![];
    for _ in 0..ctx.pick(4, 10) {
        if let Some(s) = sample_sentence(&mut rng, &mut e, 40) {
            samples.push(s);
        }
    }
    for s in &samples {
        let mut me = m.clone();
        let mut er = Earley::new(&bnf);
        ctx.rep.inc("sample_strings");
        for (i, &b) in s.iter().enumerate() {
            if me.is_stopped() {
                viol!("stopped_inside_derivable_string", json!({"string": bytes_dbg(s), "pos": i}));
            }
            if me.consume_token(b as u32).is_err() {
                viol!("derivable_byte_rejected", json!({"string": bytes_dbg(s), "pos": i}));
            }
            er.push(b);
        }
        if let Err((k, det)) = compare_node(&mut me, &er, s) {
            viol!(&k, json!({"phase": "sample_end", "detail": det}));
        }
    }
    let strs: Vec<Vec<u8>> = samples.iter().filter(|s| s.len() >= 2).cloned().collect();
    if !strs.is_empty() {
        let nm = 40 + rng.below(200);
        let v = vocab::vsyn(&mut rng, &strs, nm, false, "VsynG");
        if let (Ok(fv), true) = (factory(&v, &FactoryOpts::default()), true) {
            if let Ok(mv0) = matcher(&fv, &g) {
                if !mv0.is_error() {
                    for s in samples.iter().take(ctx.pick(3, 8)) {
                        let cut = rng.below(s.len() + 1);
                        let pre = &s[..cut];
                        let toks = v.trie().greedy_tokenize(pre);
                        let mut me = mv0.clone();
                        for &t in &toks {
                            if me.is_stopped() || me.consume_token(t).is_err() {
                                viol!("viable_prefix_rejected_as_tokens", json!({"prefix": bytes_dbg(pre), "tokens": toks}));
                            }
                        }
                        if me.is_stopped() {
                            continue;
                        }
                        let mut er = Earley::new(&bnf);
                        for &b in pre {
                            er.push(b);
                        }
                        let Ok(mask) = me.compute_mask() else {
                            if resource_stop_on_replay(&fv, &g, &toks) {
                                ctx.rep.inconclusive("resource_stop");
                                continue;
                            }
                            viol!("vocab_mask_error_on_viable_prefix", json!({"prefix": bytes_dbg(pre), "tokens": toks, "vocab": v.name, "diagnostic": me.get_error().map(|e| e.lines().next().unwrap_or("").to_string())}));
                        };
                        ctx.rep.inc("vloop_states");
                        for t in 0..v.n() as u32 {
                            let w = &v.words[t as usize];
                            if w.is_empty() || w.contains(&0xFF) {
                                continue;
                            }
                            let r = er.viable(w);
                            ctx.rep.inc("vloop_token_checks");
                            if mask.is_allowed(t) != r {
                                viol!("token_mask_differs_from_reference", json!({"prefix": bytes_dbg(pre), "token": t, "token_bytes": bytes_dbg(w), "engine_allows": mask.is_allowed(t), "reference_viable": r}));
                            }
                        }
                    }
                }
            }
        }
    }
    if rng.chance(1, 40) {
        ctx.rep.sample(json!({"grammar": g.text, "class": class, "sigma": bytes_dbg(&sigma), "max_len": max_len, "dfs_nodes": dfs.nodes, "exhaustive_for_this_grammar": !dfs.truncated, "accepted_strings": dfs.accepted}));
    }
}

pub fn run(ctx: &mut Ctx) {
    let v1 = vocab::v1(false);
    let n_cases = ctx.pick(6000, 200000);
    for idx in 0..n_cases {
        if !ctx.mine(idx) {
            continue;
        }
        if ctx.out_of_time() {
            break;
        }
        run_case(ctx, idx, &v1);
    }
    ctx.rep.exhaustive = Some(ctx.rep.get("dfs_truncated") == 0 && ctx.rep.get("cases_skipped_deadline") == 0);
}
