//! Harness-owned regex AST, printers (Rust-regex text and Lark terminal algebra) and generator.

use crate::rng::Rng;

#[derive(Clone, Debug, PartialEq)]
pub enum Rx {
    Empty,
    Lit(String),
    /// scalar-value ranges, negated?
    Class(Vec<(char, char)>, bool),
    /// any scalar except \n
    Dot,
    /// any scalar
    DotAll,
    Cat(Vec<Rx>),
    Alt(Vec<Rx>),
    Rep(Box<Rx>, u32, Option<u32>),
    /// (?i:..) over literals / ASCII classes
    CaseI(Box<Rx>),
    /// Lark-level intersection
    And(Vec<Rx>),
    /// Lark-level complement, intersected with valid UTF-8 (`~x & /(?s:.*)/`)
    Not(Box<Rx>),
    /// Lark-level complement without the UTF-8 guard (tagged class raw_complement)
    RawNot(Box<Rx>),
}

impl Rx {
    pub fn lit(s: &str) -> Rx {
        Rx::Lit(s.to_string())
    }
    pub fn has_algebra(&self) -> bool {
        match self {
            Rx::And(_) | Rx::Not(_) | Rx::RawNot(_) => true,
            Rx::Cat(v) | Rx::Alt(v) => v.iter().any(|x| x.has_algebra()),
            Rx::Rep(x, _, _) | Rx::CaseI(x) => x.has_algebra(),
            _ => false,
        }
    }
    pub fn has_not(&self) -> bool {
        match self {
            Rx::Not(_) | Rx::RawNot(_) => true,
            Rx::Rep(x, _, _) | Rx::CaseI(x) => x.has_not(),
            Rx::Cat(v) | Rx::Alt(v) | Rx::And(v) => v.iter().any(|x| x.has_not()),
            _ => false,
        }
    }
    pub fn has_and(&self) -> bool {
        match self {
            Rx::And(_) => true,
            Rx::Not(x) | Rx::RawNot(x) | Rx::Rep(x, _, _) | Rx::CaseI(x) => x.has_and(),
            Rx::Cat(v) | Rx::Alt(v) => v.iter().any(|x| x.has_and()),
            _ => false,
        }
    }
    pub fn has_raw_not(&self) -> bool {
        match self {
            Rx::RawNot(_) => true,
            Rx::Not(x) | Rx::Rep(x, _, _) | Rx::CaseI(x) => x.has_raw_not(),
            Rx::Cat(v) | Rx::Alt(v) | Rx::And(v) => v.iter().any(|x| x.has_raw_not()),
            _ => false,
        }
    }
    /// number of operator nodes (for the non-triviality rule)
    pub fn n_ops(&self) -> usize {
        match self {
            Rx::Empty | Rx::Lit(_) | Rx::Dot | Rx::DotAll => 0,
            Rx::Class(_, _) => 1,
            Rx::Cat(v) => v.iter().map(|x| x.n_ops()).sum::<usize>() + v.len().saturating_sub(1).min(1),
            Rx::Alt(v) | Rx::And(v) => v.iter().map(|x| x.n_ops()).sum::<usize>() + 1,
            Rx::Rep(x, _, _) | Rx::CaseI(x) | Rx::Not(x) | Rx::RawNot(x) => x.n_ops() + 1,
        }
    }
    /// characters mentioned in the expression (for choosing test alphabets)
    pub fn chars(&self, out: &mut Vec<char>) {
        match self {
            Rx::Lit(s) => out.extend(s.chars()),
            Rx::Class(r, _) => {
                for &(a, b) in r {
                    out.push(a);
                    out.push(b);
                    if (b as u32) > (a as u32) + 1 {
                        if let Some(m) = char::from_u32((a as u32 + b as u32) / 2) {
                            out.push(m);
                        }
                    }
                }
            }
            Rx::Cat(v) | Rx::Alt(v) | Rx::And(v) => v.iter().for_each(|x| x.chars(out)),
            Rx::Rep(x, _, _) | Rx::CaseI(x) | Rx::Not(x) | Rx::RawNot(x) => x.chars(out),
            _ => {}
        }
    }

    // ---------- printing as Rust regex syntax (no And/Not) ----------

    pub fn to_regex(&self) -> String {
        let mut s = String::new();
        self.fmt_regex(&mut s, 0);
        s
    }

    /// prec: 0 = alternation context, 1 = concatenation context, 2 = repetition operand
    fn fmt_regex(&self, s: &mut String, prec: u8) {
        match self {
            Rx::Empty => {
                if prec >= 2 {
                    s.push_str("(?:)");
                }
            }
            Rx::Lit(l) => {
                let n = l.chars().count();
                let paren = prec >= 2 && n != 1;
                if paren {
                    s.push_str("(?:");
                }
                for c in l.chars() {
                    esc_char(s, c, false);
                }
                if paren {
                    s.push(')');
                }
            }
            Rx::Class(r, neg) => {
                s.push('[');
                if *neg {
                    s.push('^');
                }
                for &(a, b) in r {
                    esc_char(s, a, true);
                    if a != b {
                        s.push('-');
                        esc_char(s, b, true);
                    }
                }
                s.push(']');
            }
            Rx::Dot => s.push('.'),
            Rx::DotAll => s.push_str("(?s:.)"),
            Rx::Cat(v) => {
                let paren = prec >= 2;
                if paren {
                    s.push_str("(?:");
                }
                for x in v {
                    x.fmt_regex(s, 1);
                }
                if paren {
                    s.push(')');
                }
            }
            Rx::Alt(v) => {
                let paren = prec >= 1;
                if paren {
                    s.push('(');
                }
                for (i, x) in v.iter().enumerate() {
                    if i > 0 {
                        s.push('|');
                    }
                    x.fmt_regex(s, 0);
                }
                if paren {
                    s.push(')');
                }
            }
            Rx::Rep(x, m, n) => {
                if prec >= 2 {
                    s.push_str("(?:");
                }
                x.fmt_regex(s, 2);
                match (*m, *n) {
                    (0, None) => s.push('*'),
                    (1, None) => s.push('+'),
                    (0, Some(1)) => s.push('?'),
                    (m, None) => s.push_str(&format!("{{{m},}}")),
                    (m, Some(n)) if m == n => s.push_str(&format!("{{{m}}}")),
                    (m, Some(n)) => s.push_str(&format!("{{{m},{n}}}")),
                }
                if prec >= 2 {
                    s.push(')');
                }
            }
            Rx::CaseI(x) => {
                s.push_str("(?i:");
                x.fmt_regex(s, 0);
                s.push(')');
            }
            Rx::And(_) | Rx::Not(_) | Rx::RawNot(_) => panic!("algebra in plain regex"),
        }
    }

    // ---------- printing as a Lark terminal expression ----------

    /// `style` bits choose between "/regex/" leaves and structural Lark syntax.
    pub fn to_lark_term(&self, rng: &mut Rng) -> String {
        let mut s = String::new();
        self.fmt_lark(&mut s, rng);
        s
    }

    fn fmt_lark(&self, s: &mut String, rng: &mut Rng) {
        // algebra-free sub-expressions: usually print as a regex literal
        if !self.has_algebra() && (rng.chance(2, 3) || !self.lark_structural_ok()) {
            let r = self.to_regex();
            if r.is_empty() {
                s.push_str("\"\"");
            } else {
                s.push('/');
                s.push_str(&r.replace('/', "\\/"));
                s.push('/');
            }
            return;
        }
        match self {
            Rx::Empty => s.push_str("\"\""),
            Rx::Lit(l) => s.push_str(&serde_json::to_string(l).unwrap()),
            Rx::Cat(v) => {
                s.push('(');
                for (i, x) in v.iter().enumerate() {
                    if i > 0 {
                        s.push(' ');
                    }
                    x.fmt_lark(s, rng);
                }
                s.push(')');
            }
            Rx::Alt(v) => {
                s.push('(');
                for (i, x) in v.iter().enumerate() {
                    if i > 0 {
                        s.push_str(" | ");
                    }
                    x.fmt_lark(s, rng);
                }
                s.push(')');
            }
            Rx::And(v) => {
                s.push('(');
                for (i, x) in v.iter().enumerate() {
                    if i > 0 {
                        s.push_str(" & ");
                    }
                    x.fmt_lark(s, rng);
                }
                s.push(')');
            }
            Rx::Not(x) => {
                s.push_str("(~(");
                x.fmt_lark(s, rng);
                s.push_str(") & /(?s:.*)/)");
            }
            Rx::RawNot(x) => {
                s.push_str("(~(");
                x.fmt_lark(s, rng);
                s.push_str("))");
            }
            Rx::Rep(x, m, n) => {
                s.push('(');
                x.fmt_lark(s, rng);
                s.push(')');
                match (*m, *n) {
                    (0, None) => s.push('*'),
                    (1, None) => s.push('+'),
                    (0, Some(1)) => s.push('?'),
                    (m, None) => s.push_str(&format!("{{{m},}}")),
                    (m, Some(n)) if m == n => s.push_str(&format!("{{{m}}}")),
                    (m, Some(n)) => s.push_str(&format!("{{{m},{n}}}")),
                }
            }
            Rx::CaseI(x) => {
                if let Rx::Lit(l) = &**x {
                    s.push_str(&serde_json::to_string(l).unwrap());
                    s.push('i');
                } else {
                    s.push('/');
                    s.push_str(&self.to_regex().replace('/', "\\/"));
                    s.push('/');
                }
            }
            Rx::Class(_, _) | Rx::Dot | Rx::DotAll => {
                s.push('/');
                s.push_str(&self.to_regex().replace('/', "\\/"));
                s.push('/');
            }
        }
    }

    fn lark_structural_ok(&self) -> bool {
        match self {
            Rx::Lit(l) => !l.is_empty(),
            Rx::CaseI(x) => matches!(&**x, Rx::Lit(l) if !l.is_empty()),
            _ => true,
        }
    }
}

fn esc_char(s: &mut String, c: char, in_class: bool) {
    let special = if in_class { "\\]^-[&~" } else { "\\.+*?()|[]{}^$#&-~" };
    if special.contains(c) {
        s.push('\\');
        s.push(c);
    } else if (c as u32) < 0x20 || c as u32 == 0x7f || c == ' ' && false {
        s.push_str(&format!("\\x{:02x}", c as u32));
    } else {
        s.push(c);
    }
}

pub const ALPHA: &[char] = &['a', 'b', 'c', 'x', 'k', 's', '0', '1', '9', ' ', '-', '.', '\u{e9}', '\u{65e5}', '\u{1f422}', 'A', 'Z', '\n', '/', '"'];

pub struct RxGen {
    pub allow_algebra: bool,
    pub allow_raw_not: bool,
    pub max_depth: u32,
}

impl RxGen {
    pub fn gen(&self, rng: &mut Rng) -> Rx {
        let r = self.gen_d(rng, self.max_depth, true);
        simplify(r)
    }

    fn gen_char(&self, rng: &mut Rng) -> char {
        // biased towards a small alphabet so that DFS alphabets stay small
        if rng.chance(3, 4) {
            ALPHA[rng.below(6)]
        } else {
            *rng.pick(ALPHA)
        }
    }

    fn gen_lit(&self, rng: &mut Rng) -> Rx {
        let n = 1 + rng.below(3);
        Rx::Lit((0..n).map(|_| self.gen_char(rng)).collect())
    }

    fn gen_class(&self, rng: &mut Rng) -> Rx {
        let n = 1 + rng.below(3);
        let mut r = vec![];
        for _ in 0..n {
            let a = self.gen_char(rng);
            if rng.chance(1, 2) {
                r.push((a, a));
            } else {
                let b = self.gen_char(rng);
                let (a, b) = if a <= b { (a, b) } else { (b, a) };
                // keep ranges small enough to reason about but crossing interesting points
                r.push((a, b));
            }
        }
        Rx::Class(r, rng.chance(1, 4))
    }

    fn gen_d(&self, rng: &mut Rng, depth: u32, top: bool) -> Rx {
        if depth == 0 || rng.chance(1, 5) {
            return match rng.below(10) {
                0..=4 => self.gen_lit(rng),
                5..=7 => self.gen_class(rng),
                8 => {
                    if rng.chance(1, 2) {
                        Rx::Dot
                    } else {
                        Rx::DotAll
                    }
                }
                _ => {
                    if rng.chance(1, 3) {
                        Rx::Empty
                    } else {
                        Rx::CaseI(Box::new(self.gen_lit(rng)))
                    }
                }
            };
        }
        let alg = self.allow_algebra && rng.chance(1, 4);
        if alg {
            return match rng.below(3) {
                0 => {
                    let a = self.gen_d(rng, depth - 1, false);
                    let b = self.gen_d(rng, depth - 1, false);
                    Rx::And(vec![a, b])
                }
                1 => {
                    // typical use: X & ~Y
                    let a = self.gen_d(rng, depth - 1, false);
                    let b = self.gen_d(rng, depth - 1, false);
                    Rx::And(vec![a, Rx::Not(Box::new(b))])
                }
                _ => {
                    let b = self.gen_d(rng, depth - 1, false);
                    if self.allow_raw_not && rng.chance(1, 2) {
                        Rx::RawNot(Box::new(b))
                    } else {
                        Rx::Not(Box::new(b))
                    }
                }
            };
        }
        let _ = top;
        match rng.below(9) {
            0..=2 => {
                let n = 2 + rng.below(2);
                Rx::Cat((0..n).map(|_| self.gen_d(rng, depth - 1, false)).collect())
            }
            3..=4 => {
                let n = 2 + rng.below(2);
                Rx::Alt((0..n).map(|_| self.gen_d(rng, depth - 1, false)).collect())
            }
            _ => {
                let x = self.gen_d(rng, depth - 1, false);
                let (m, n) = match rng.below(8) {
                    0 => (0, None),
                    1 => (1, None),
                    2 => (0, Some(1)),
                    3 => {
                        let m = rng.below(3) as u32;
                        (m, None)
                    }
                    4 => {
                        let m = rng.below(4) as u32;
                        (m, Some(m))
                    }
                    _ => {
                        let m = rng.below(3) as u32;
                        (m, Some(m + 1 + rng.below(3) as u32))
                    }
                };
                Rx::Rep(Box::new(x), m, n)
            }
        }
    }
}

/// flatten nested Cat/Alt, drop Rep of Rep with unbounded blowup
pub fn simplify(r: Rx) -> Rx {
    match r {
        Rx::Cat(v) => {
            let mut out = vec![];
            for x in v {
                match simplify(x) {
                    Rx::Cat(w) => out.extend(w),
                    Rx::Empty => {}
                    y => out.push(y),
                }
            }
            match out.len() {
                0 => Rx::Empty,
                1 => out.pop().unwrap(),
                _ => Rx::Cat(out),
            }
        }
        Rx::Alt(v) => {
            let mut out = vec![];
            for x in v {
                match simplify(x) {
                    Rx::Alt(w) => out.extend(w),
                    y => out.push(y),
                }
            }
            Rx::Alt(out)
        }
        Rx::And(v) => Rx::And(v.into_iter().map(simplify).collect()),
        Rx::Rep(x, m, n) => Rx::Rep(Box::new(simplify(*x)), m, n),
        Rx::Not(x) => Rx::Not(Box::new(simplify(*x))),
        Rx::RawNot(x) => Rx::RawNot(Box::new(simplify(*x))),
        Rx::CaseI(x) => Rx::CaseI(Box::new(simplify(*x))),
        x => x,
    }
}
