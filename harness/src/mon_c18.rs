//! C18: stop / end-of-sequence / accepting status are mutually consistent (Matcher and
//! Constraint interfaces, including illegal call sequences) and the stop-sequence controller
//! returns exactly the text before the first stop.

use crate::ctx::Ctx;
use crate::engine::*;
use crate::gen_regex::{Rx, RxGen};
use crate::pool::{self, VKind};
use crate::ref_dfa::Dfa;
use crate::report::bytes_dbg;
use crate::rng::{fnv, Rng};
use crate::vocab::{self, Vocab};
use crate::walker;
use llguidance::api::StopReason;
use llguidance::{Constraint, Matcher, ParserFactory, StopController, TokenParser};
use serde_json::json;

fn pick_case(rng: &mut Rng, idx: u64) -> (GCase, Vocab) {
    let g = loop {
        let g = if rng.chance(1, 2) {
            let i = rng.below(pool::n_corpus() as usize) as u64;
            pool::grammar(rng, i)
        } else {
            pool::grammar(rng, 1_000_000 + idx)
        };
        if !g.has_tag("tokrange_eos") && !g.has_tag("special_token_ref") {
            break g;
        }
    };
    let vk = match rng.below(6) {
        0 | 1 => VKind::V1,
        2 => VKind::Vsyn,
        3 => VKind::VsynC,
        4 => VKind::V1c,
        _ => VKind::Bpe(0),
    };
    let mut v = pool::make_vocab(rng, &g, vk);
    // one case in four: a vocabulary with two or three EOS ids (extra ones are special tokens the
    // grammar text does not mention)
    if rng.chance(1, 4) {
        let cand: Vec<u32> = v
            .specials
            .iter()
            .copied()
            .filter(|&t| t != v.eos && v.words[t as usize].len() > 1 && !g.text.contains(&String::from_utf8_lossy(&v.words[t as usize][1..]).to_string()))
            .collect();
        if !cand.is_empty() {
            let k = 1 + rng.below(2);
            let extra: Vec<u32> = (0..k).map(|_| *rng.pick(&cand)).collect();
            v = v.with_extra_eos(&extra);
        }
    }
    (g, v)
}

/// reference: TokenParser driven WITHOUT check_stop; tells whether a stop is due
fn stop_due(r: &mut TokenParser, v: &Vocab) -> Option<bool> {
    let acc = r.is_accepting();
    match r.compute_mask() {
        Ok(m) => {
            let non_eos = (0..v.n() as u32).any(|t| !v.is_eos(t) && m.is_allowed(t));
            Some(acc && !non_eos)
        }
        Err(_) => {
            if r.stop_reason() == StopReason::NoExtensionBias {
                Some(acc)
            } else {
                None
            }
        }
    }
}

fn complete_in_byte_engine(f1: &ParserFactory, g: &GCase, bytes: &[u8]) -> Option<bool> {
    let mut m = matcher(f1, g).ok()?;
    for &b in bytes {
        if b == 0xFF {
            return None;
        }
        if m.is_stopped() || m.consume_token(b as u32).is_err() {
            return Some(false);
        }
    }
    Some(if m.is_stopped() { m.stop_reason().is_ok() } else { m.is_accepting().unwrap_or(false) })
}

fn matcher_case(ctx: &mut Ctx, idx: u64) {
    let mut rng = ctx.case_rng(idx);
    let (g, v) = pick_case(&mut rng, idx);
    let Ok(f) = factory(&v, &FactoryOpts::default()) else { return };
    let v1 = vocab::v1(false);
    let Ok(f1) = factory_noslice(&v1) else { return };
    let Ok(mut m) = matcher(&f, &g) else { return };
    if m.is_error() {
        return;
    }
    let Ok(mut r) = parser(&f, &g) else { return };
    r.start_without_prompt();
    ctx.rep.inc("matcher_cases");
    let tags = g.tags.clone();
    let mut hist: Vec<u32> = vec![];
    let mut ops: Vec<String> = vec![];
    macro_rules! viol {
        ($kind:expr, $detail:expr) => {{
            let d = json!({"api": "Matcher", "grammar": g.text, "vocab": v.name, "history": hist, "ops": ops, "oracle": $detail});
            let rp = ctx.replay(idx);
            ctx.rep.violation($kind, &tags, d, rp);
            return;
        }};
    }
    let steps = ctx.pick(30, 70);
    for step in 0..steps {
        if m.is_stopped() {
            break;
        }
        let Ok(mask) = m.compute_mask() else {
            if !m.is_error() {
                viol!("mask_failed_but_not_failed_state", json!({}));
            }
            break;
        };
        // ---- illegal call (token not in mask / out of range) on a CLONE first: it must fail and fail for good
        if rng.chance(1, 7) {
            // (under canonical forcing the mask may be narrower than the accepted set: a token outside the mask
            // is illegal only if validate_tokens refuses it too)
            let bad = if rng.chance(1, 2) {
                v.n() as u32 + rng.below(50) as u32
            } else {
                (0..40).map(|_| rng.below(v.n()) as u32).find(|&t| !mask.is_allowed(t) && m.deep_clone().validate_tokens(&[t]).map(|k| k == 0).unwrap_or(true)).unwrap_or(u32::MAX)
            };
            if bad != u32::MAX {
                let mut c = m.deep_clone();
                let res = c.consume_token(bad);
                ctx.rep.inc("illegal_calls");
                if res.is_ok() {
                    viol!("illegal_token_accepted", json!({"token": bad}));
                }
                // permanently failed: every later call fails and it reports stopped
                let later_ok = c.compute_mask().is_ok() || c.consume_token(v.eos).is_ok() || c.validate_tokens(&[0]).is_ok() || c.rollback(1).is_ok();
                if later_ok || !c.is_stopped() {
                    // otherwise it must behave exactly like the engine that never saw the call
                    let a = c.compute_mask().ok().map(|x| mask_hash(&x, v.n()));
                    let b = m.deep_clone().compute_mask().ok().map(|x| mask_hash(&x, v.n()));
                    if a != b || c.is_stopped() != m.is_stopped() {
                        viol!("state_silently_wrong_after_illegal_call", json!({"token": bad, "stopped": c.is_stopped(), "error": c.is_error()}));
                    }
                }
            }
        }
        let pol = walker::policy_for_step(&mut rng, step, steps);
        let Some(t) = walker::choose(&mut rng, &mask, &v, pol) else { break };
        let was_accepting = m.is_accepting().unwrap_or(false);
        if m.consume_token(t).is_err() {
            if crate::tp::accepted_with_relaxed_limits(&v, None, &g, &hist, t) {
                ctx.rep.inconclusive("resource_stop");
                return;
            }
            viol!("masked_token_rejected", json!({"token": t}));
        }
        ops.push(format!("commit {t}"));
        hist.push(t);
        ctx.rep.inc("stop_decisions_checked");
        if v.is_eos(t) {
            // EOS committed in an accepting state => stop EndOfSentence
            if !(m.is_stopped() && m.stop_reason() == StopReason::EndOfSentence && was_accepting) {
                viol!("eos_commit_did_not_stop", json!({"stop": format!("{:?}", m.stop_reason()), "was_accepting": was_accepting}));
            }
            break;
        }
        if r.consume_token(t).is_err() {
            viol!("reference_parser_rejected_masked_token", json!({"token": t}));
        }
        let due = stop_due(&mut r, &v);
        match due {
            Some(d) => {
                if !m.is_stopped() && d {
                    viol!("stop_not_reported_although_only_eos_remains", json!({"matcher_stopped": false, "reference_says_stop_due": true}));
                }
                if m.is_stopped() != d {
                    viol!("stop_reported_iff_complete_and_unextendable_violated", json!({"matcher_stopped": m.is_stopped(), "stop_reason": format!("{:?}", m.stop_reason()), "reference_says_stop_due": d}));
                }
            }
            None => {
                ctx.rep.inconclusive("reference_mask_failed");
                return;
            }
        }
    }
    if m.is_stopped() && !m.is_error() {
        ctx.rep.inc("stopped_runs");
        // text assembled from the tokens is a complete string of the grammar
        let body: Vec<u32> = hist.iter().copied().filter(|&t| !v.is_eos(t)).collect();
        let text = v.trie().decode_raw(&body);
        match complete_in_byte_engine(&f1, &g, &text) {
            Some(true) => {}
            Some(false) => {
                let sr = m.stop_reason();
                if g.has_tag("unproductive") && matches!(sr, StopReason::NoExtension | StopReason::NoExtensionBias) {
                    viol!("dead_end_stop_in_unproductive_grammar", json!({"text": bytes_dbg(&text), "stop_reason": format!("{sr:?}")}));
                }
                viol!("text_at_stop_is_not_complete", json!({"text": bytes_dbg(&text), "stop_reason": format!("{sr:?}")}))
            }
            None => {}
        }
        // after stop: nothing is accepted, mask is an error, mask_or_eos is exactly the EOS set
        for _ in 0..4 {
            let t = rng.below(v.n()) as u32;
            if m.consume_token(t).is_ok() {
                viol!("token_accepted_after_stop", json!({"token": t}));
            }
        }
        if m.is_error() {
            // a rejected commit after stop may latch the error state; that is "permanently failed"
            return;
        }
        if m.compute_mask().is_ok() {
            viol!("mask_computed_after_stop", json!({}));
        }
        ctx.rep.inc("after_stop_checks");
        ctx.rep.nontrivial(g.hash() ^ fnv(&hist.iter().flat_map(|t| t.to_le_bytes()).collect::<Vec<u8>>()) ^ fnv(v.name.as_bytes()));
    }
    // compute_mask_or_eos on a separately stopped engine (compute_mask above latches an error)
    if let Some(mut fr) = crate::cmp::fresh_replay(&f, &g, &hist) {
        if fr.is_stopped() && !fr.is_error() {
            match fr.compute_mask_or_eos() {
                Ok(me) => {
                    let l = mask_list(&me, v.n());
                    let mut want = v.eos_all.clone();
                    want.sort();
                    if l != want {
                        viol!("mask_or_eos_after_stop_not_exactly_eos", json!({"mask": l.iter().take(8).collect::<Vec<_>>()}));
                    }
                }
                Err(_) => viol!("mask_or_eos_failed_after_normal_stop", json!({})),
            }
        }
    }
    if idx % 50 == 0 {
        ctx.rep.sample(json!({"api": "Matcher", "grammar": g.name, "vocab": v.name, "ops": ops.iter().take(30).collect::<Vec<_>>(), "stopped": format!("{:?}", m.stop_reason())}));
    }
}

fn constraint_case(ctx: &mut Ctx, idx: u64) {
    let mut rng = ctx.case_rng(idx);
    let (g, v) = pick_case(&mut rng, idx);
    let ff = v.canonical && rng.chance(1, 2);
    // one case in four runs under tight per-step limits: a mask or commit that runs out of budget must surface as an
    // error (and stay one), never as an ordinary stop on incomplete text
    let tight = (idx / 4) % 3 == 2;
    let limits = if tight {
        let mut l = limits_default();
        match rng.below(3) {
            0 => l.step_max_items = 3 + rng.below(120),
            1 => l.step_lexer_fuel = 20 + rng.below(3000) as u64,
            _ => {
                l.step_max_items = 10 + rng.below(400);
                l.step_lexer_fuel = 200 + rng.below(20000) as u64;
            }
        }
        Some(l)
    } else {
        None
    };
    let Ok(f) = factory(&v, &FactoryOpts { ff_tokens: ff, limits, ..Default::default() }) else { return };
    let v1 = vocab::v1(false);
    let Ok(f1) = factory_noslice(&v1) else { return };
    let Ok(p) = parser(&f, &g) else { return };
    let mut c = Constraint::new(p);
    ctx.rep.inc("constraint_cases");
    if tight {
        ctx.rep.inc("tight_limit_cases");
    }
    let tags = g.tags.clone();
    let mut hist: Vec<u32> = vec![];
    let mut ops: Vec<String> = vec![];
    macro_rules! viol {
        ($kind:expr, $detail:expr) => {{
            let d = json!({"api": "Constraint", "ff_tokens": ff, "grammar": g.text, "vocab": v.name, "history": hist, "ops": ops, "oracle": $detail});
            let rp = ctx.replay(idx);
            ctx.rep.violation($kind, &tags, d, rp);
            return;
        }};
    }
    let steps = ctx.pick(30, 70);
    let mut stopped = false;
    let mut eos_committed_accepting = false;
    for step in 0..steps {
        // illegal: commit before / without a mask, on a clone
        if rng.chance(1, 10) {
            let mut k = c.clone();
            ctx.rep.inc("illegal_calls");
            let r1 = k.commit_token(Some(rng.below(v.n()) as u32));
            // the clone's last result is a splice (not a mask) => this call is out of order
            if let Ok(cr) = &r1 {
                // tolerated only if it changes nothing: same history length on the parser
                if k.parser.num_tokens() != c.parser.num_tokens() && step == 0 {
                    viol!("commit_without_mask_changed_state", json!({"result": format!("{cr:?}")}));
                }
            }
        }
        let r = match c.compute_mask() {
            Ok(r) => r.clone(),
            Err(_) => {
                // an error here must be sticky
                if c.compute_mask().is_ok() {
                    viol!("error_not_sticky", json!({}));
                }
                if tight {
                    ctx.rep.inc("tight_limit_errors_reported");
                    // a failed engine keeps reporting its failure: no commit is taken, no stop is announced
                    // (a commit without a preceding mask that merely repeats the previous result and takes nothing is the
                    // tolerated out-of-order call of the block above; taking a token or announcing a stop is not)
                    let n0 = c.parser.num_tokens();
                    if let Ok(cr) = c.commit_token(Some(rng.below(v.n()) as u32)) {
                        if c.parser.num_tokens() != n0 || cr.stop || c.step_result().is_stop() {
                            viol!("failed_engine_answered_after_resource_error", json!({"commit": format!("{cr:?}"), "tight_limits": true, "tokens_before": n0, "tokens_after": c.parser.num_tokens()}));
                        }
                    }
                    if c.compute_mask().is_ok() {
                        viol!("error_not_sticky", json!({"after": "commit attempt"}));
                    }
                }
                break;
            }
        };
        ops.push("mask".into());
        if r.is_stop() {
            stopped = true;
            break;
        }
        if eos_committed_accepting {
            viol!("eos_commit_did_not_stop", json!({"stop": format!("{:?}", c.parser.stop_reason()), "was_accepting": true}));
        }
        let Some(mask) = r.sample_mask.clone() else {
            viol!("neither_mask_nor_stop", json!({"splices": r.splices.len()}));
        };
        // illegal: token outside the mask, on a clone
        if rng.chance(1, 8) {
            if let Some(bad) = (0..40).map(|_| rng.below(v.n()) as u32).find(|&t| !mask.is_allowed(t)) {
                let mut k = c.clone();
                ctx.rep.inc("illegal_calls");
                let res = k.commit_token(Some(bad));
                if let Ok(cr) = res {
                    if !cr.stop {
                        // accepted a token outside its own mask: acceptable only if the engine (not the mask) allows it,
                        // i.e. a canonical-forcing mask narrower than the accepted set
                        let mut probe = c.clone();
                        let val = probe.validate_tokens_raw(&[bad]).unwrap_or(0);
                        if val != 1 {
                            viol!("token_outside_mask_committed", json!({"token": bad}));
                        }
                    }
                } else {
                    // failed: must stay failed
                    let e1 = res.as_ref().err().map(|e| e.to_string().lines().next().unwrap_or("").to_string());
                    let m2 = k.compute_mask().map(|r| (r.is_stop(), r.sample_mask.as_ref().map(|m| m.is_allowed(bad))));
                    let c2 = k.commit_token(Some(bad));
                    if m2.is_ok() && c2.is_ok() {
                        viol!("failure_not_permanent_after_bad_token", json!({"token": bad, "first_error": e1, "then_mask": format!("{m2:?}"), "then_commit": format!("{c2:?}"), "stop_reason": format!("{:?}", k.parser.stop_reason())}));
                    }
                }
            }
        }
        let pol = walker::policy_for_step(&mut rng, step, steps);
        let Some(t) = walker::choose(&mut rng, &mask, &v, pol) else { break };
        if v.is_eos(t) && c.parser.is_accepting() {
            eos_committed_accepting = true;
        }
        let cr = match c.commit_token(Some(t)) {
            Ok(cr) => cr,
            Err(_) => {
                if crate::tp::accepted_with_relaxed_limits(&v, None, &g, &hist, t) {
                    if tight {
                        ctx.rep.inc("tight_limit_errors_reported");
                    } else {
                        ctx.rep.inconclusive("resource_stop");
                    }
                    return;
                }
                viol!("masked_token_rejected", json!({"token": t}))
            }
        };
        ops.push(format!("commit {t}"));
        if cr.backtrack != 0 {
            break;
        }
        hist.extend(cr.ff_tokens.iter().copied());
        ctx.rep.inc("stop_decisions_checked");
        if cr.stop {
            viol!("commit_reported_stop_without_mask_stop", json!({}));
        }
    }
    if stopped {
        ctx.rep.inc("stopped_runs");
        let body: Vec<u32> = hist.iter().copied().filter(|&t| !v.is_eos(t)).collect();
        let text = v.trie().decode_raw(&body);
        match complete_in_byte_engine(&f1, &g, &text) {
            Some(true) => {}
            Some(false) => {
                let sr = c.parser.stop_reason();
                if g.has_tag("unproductive") && matches!(sr, StopReason::NoExtension | StopReason::NoExtensionBias) {
                    viol!("dead_end_stop_in_unproductive_grammar", json!({"text": bytes_dbg(&text), "stop_reason": format!("{sr:?}")}));
                }
                viol!("text_at_stop_is_not_complete", json!({"text": bytes_dbg(&text), "stop_reason": format!("{sr:?}")}))
            }
            None => {}
        }
        // the stop is sticky: further calls report stop / error, never a fresh mask
        if c.compute_mask().is_ok() {
            viol!("mask_after_stop", json!({}));
        }
        match c.commit_token(Some(rng.below(v.n()) as u32)) {
            Ok(cr) if !cr.stop => viol!("commit_after_stop_not_reported_as_stop", json!({})),
            _ => {}
        }
        ctx.rep.inc("after_stop_checks");
        ctx.rep.nontrivial(g.hash() ^ fnv(&hist.iter().flat_map(|t| t.to_le_bytes()).collect::<Vec<u8>>()) ^ fnv(v.name.as_bytes()) ^ 0xC);
    }
    if idx % 50 == 1 {
        ctx.rep.sample(json!({"api": "Constraint", "ff_tokens": ff, "grammar": g.name, "vocab": v.name, "tokens": hist.len(), "stopped": stopped}));
    }
}

// ------------------------------------------------------------------ stop controller

struct StopSpec {
    stop_tokens: Vec<u32>,
    strings: Vec<String>,
    rx: Option<Rx>,
    /// DFA of the union of all stop patterns (matching exactly one stop occurrence)
    dfa: Option<Dfa>,
    max_stop_len: usize,
}

/// earliest end position of a stop match in `seg`, with the set of match lengths ending there
fn earliest_match(dfa: &Dfa, seg: &[u8]) -> Option<(usize, Vec<usize>)> {
    for e in 1..=seg.len() {
        let mut lens = vec![];
        for s in 0..e {
            if dfa.matches(&seg[s..e]) {
                lens.push(e - s);
            }
        }
        if !lens.is_empty() {
            return Some((e, lens));
        }
    }
    None
}

fn stop_case(ctx: &mut Ctx, idx: u64, via_ffi: bool) {
    let mut rng = ctx.case_rng(idx);
    // vocabulary with multi-byte tokens that split stop strings and multi-byte characters
    let texts: Vec<Vec<u8>> = ["hello world, this is a test.\nSTOP here <end> and </s> done", "caf\u{e9} \u{65e5}\u{672c}\u{8a9e} \u{1f422}\u{1f422} ab abab ba", "###END### ---\n\n\n", "x=1; y=2; // comment\n"].iter().map(|s| s.as_bytes().to_vec()).collect();
    let nm = 60 + rng.below(200);
    let v = vocab::vsyn(&mut rng, &texts, nm, false, "Vstop");
    // stop spec
    let lits = ["STOP", "<end>", "\n\n", "ab", "###", ";", "\u{e9}", "\u{672c}\u{8a9e}", "test.", "ba", "--"];
    let n_str = rng.below(3);
    let mut strings: Vec<String> = vec![];
    for _ in 0..n_str {
        let s = rng.pick(&lits).to_string();
        if !strings.contains(&s) {
            strings.push(s);
        }
    }
    let meta_class = rng.chance(1, 12);
    if meta_class {
        strings.push((*rng.pick(&["a.b", "x+", "1|2", "e{2}", "(t)", "[ab]", "is.a"])).to_string());
    }
    let rx = if rng.chance(1, 3) {
        let gen = RxGen { allow_algebra: false, allow_raw_not: false, max_depth: 2 };
        let r = pool::gen_nonempty(&mut rng, &gen);
        // stop patterns that match the empty string stop immediately; keep those out
        match Dfa::from_rx(&r) {
            Ok(d) if !d.is_accept(d.start) => Some(r),
            _ => None,
        }
    } else {
        None
    };
    let stop_tokens: Vec<u32> = if rng.chance(1, 2) { vec![v.eos] } else if rng.chance(1, 2) { vec![v.eos, rng.below(v.n()) as u32] } else { vec![] };
    let mut alts: Vec<Rx> = strings.iter().map(|s| Rx::lit(s)).collect();
    if let Some(r) = &rx {
        alts.push(r.clone());
    }
    let dfa = if alts.is_empty() { None } else { Dfa::from_rx(&Rx::Alt(alts)).ok() };
    let spec = StopSpec { stop_tokens, strings: strings.clone(), rx: rx.clone(), dfa, max_stop_len: strings.iter().map(|s| s.len()).max().unwrap_or(0).max(if rx.is_some() { 12 } else { 0 }) };
    let tags: Vec<String> = if meta_class { vec!["stop_string_with_regex_metacharacters".into()] } else { vec![] };
    let rx_text = rx.as_ref().map(|r| r.to_regex());
    macro_rules! viol {
        ($kind:expr, $detail:expr) => {{
            let d = json!({"stop_tokens": spec.stop_tokens, "stop_strings": spec.strings, "stop_regex": rx_text, "via_ffi": via_ffi, "oracle": $detail});
            let rp = ctx.replay(idx);
            ctx.rep.violation($kind, &tags, d, rp);
            return;
        }};
    }
    let sc = match StopController::new(v.env.clone(), spec.stop_tokens.clone(), rx_text.clone(), strings.clone()) {
        Ok(s) => s,
        Err(e) => {
            if meta_class {
                viol!("stop_string_rejected_as_invalid_regex", json!({"error": e.to_string().lines().next()}));
            }
            ctx.rep.inc("stop_controller_rejected");
            return;
        }
    };
    let mut sc = sc;
    ctx.rep.inc("stop_cases");
    // token stream: tokenisation of text assembled from the sample texts and stop fragments, plus specials
    let mut stream: Vec<u32> = vec![];
    let n_toks = 5 + rng.below(40);
    while stream.len() < n_toks {
        match rng.below(12) {
            0 => stream.push(*rng.pick(&v.specials)),
            1 => {
                let s = rng.pick(&lits).as_bytes();
                // split a stop literal across several tokens (byte tokens)
                stream.extend(s.iter().map(|&b| b as u32));
            }
            2 if !lits.is_empty() => {
                // a stop literal interrupted by a special token (the decoded text does NOT contain the stop),
                // followed by more text
                let s = rng.pick(&lits).as_bytes();
                if s.len() >= 2 {
                    let cut = 1 + rng.below(s.len() - 1);
                    stream.extend(s[..cut].iter().map(|&b| b as u32));
                    stream.push(*rng.pick(&v.specials));
                    stream.extend(s[cut..].iter().map(|&b| b as u32));
                }
            }
            _ => {
                let t = rng.pick(&texts);
                let a = rng.below(t.len());
                let b = (a + 1 + rng.below(12)).min(t.len());
                stream.extend(v.trie().greedy_tokenize(&t[a..b]));
            }
        }
    }
    if rng.chance(1, 3) && !spec.stop_tokens.is_empty() {
        let i = rng.below(stream.len());
        stream.insert(i, spec.stop_tokens[0]);
    }
    // ---- reference model
    let mut expected: Vec<u8> = vec![]; // everything that must have been returned by the end
    let mut seg: Vec<u8> = vec![]; // bytes since the last regex reset
    let mut seg_base = 0usize; // offset of seg in `expected_full`
    let mut full: Vec<u8> = vec![];
    let mut stop_at: Option<(usize, usize)> = None; // (token index, returned length)
    let mut ambiguous = false;
    for (ti, &t) in stream.iter().enumerate() {
        if spec.stop_tokens.contains(&t) {
            stop_at = Some((ti, full.len()));
            break;
        }
        let w = &v.words[t as usize];
        if w.is_empty() || w[0] == 0xFF {
            let txt: Vec<u8> = if w.is_empty() { format!("<[{t}]>").into_bytes() } else { w[1..].to_vec() };
            full.extend_from_slice(&txt);
            seg.clear();
            seg_base = full.len();
            continue;
        }
        let before = seg.len();
        seg.extend_from_slice(w);
        full.extend_from_slice(w);
        if let Some(d) = &spec.dfa {
            // only matches ending inside the new bytes are new
            if let Some((e, lens)) = earliest_match(d, &seg) {
                if e > before {
                    if lens.len() > 1 {
                        ambiguous = true;
                    }
                    stop_at = Some((ti, seg_base + e - lens[0]));
                    break;
                }
            }
        }
    }
    if ambiguous {
        ctx.rep.inc("ambiguous_stop_skipped");
        return;
    }
    let _ = &mut expected;
    // ---- run the controller
    let mut got: Vec<u8> = vec![];
    let mut invalid_stream = false;
    let ffi_state = if via_ffi { Some(()) } else { None };
    let _ = ffi_state;
    for (ti, &t) in stream.iter().enumerate() {
        let chunk = sc.commit_token(t);
        ctx.rep.inc("stop_commits");
        if chunk.contains('\u{fffd}') {
            // only legitimate when the committed tokens themselves carry invalid UTF-8
            let mut all: Vec<u8> = vec![];
            for &x in &stream[..=ti] {
                let w = &v.words[x as usize];
                if spec.stop_tokens.contains(&x) {
                    // the stop token's own bytes are not part of the text: a character may be cut there
                    all.push(0xFF);
                    break;
                }
                if !w.is_empty() && w[0] != 0xFF {
                    all.extend_from_slice(w);
                } else {
                    // a special token flushes pending bytes: a split character may legitimately be cut there
                    all.push(0xFF);
                }
            }
            if std::str::from_utf8(&all).is_ok() {
                viol!("replacement_character_in_output_of_valid_text", json!({"token_index": ti, "chunk": chunk, "stream": stream}));
            }
        }
        got.extend_from_slice(chunk.as_bytes());
        let should_be_stopped = stop_at.is_some_and(|(si, _)| ti >= si);
        // the model is only defined for streams that decode to valid UTF-8 (possibly cut mid-character)
        let valid_so_far = {
            let mut all: Vec<u8> = vec![];
            for &x in &stream[..=ti] {
                let w = &v.words[x as usize];
                if spec.stop_tokens.contains(&x) {
                    if std::str::from_utf8(&all).is_err() {
                        all.push(0xFF); // stop token in the middle of a character
                    }
                    break;
                }
                if !w.is_empty() && w[0] != 0xFF {
                    all.extend_from_slice(w);
                } else if std::str::from_utf8(&all).is_err() {
                    all.push(0xFF); // special token in the middle of a character
                }
            }
            match std::str::from_utf8(&all) {
                Ok(_) => true,
                Err(e) => e.error_len().is_none(),
            }
        };
        if !valid_so_far {
            invalid_stream = true;
        }
        if !invalid_stream && sc.is_stopped() != should_be_stopped {
            viol!("stopped_flag_differs_from_model", json!({"token_index": ti, "controller": sc.is_stopped(), "model": should_be_stopped, "stream": stream, "text": bytes_dbg(&full)}));
        }
        if let Some((si, _)) = stop_at {
            if ti > si && !chunk.is_empty() {
                viol!("text_returned_after_stop", json!({"token_index": ti, "chunk": chunk}));
            }
        }
    }
    let lossless = std::str::from_utf8(&full).is_ok() && !invalid_stream;
    if invalid_stream {
        ctx.rep.inc("streams_with_invalid_utf8");
    }
    match stop_at {
        Some((_, len)) => {
            ctx.rep.inc("stopped_runs");
            let want = &full[..len];
            if lossless && got != want {
                viol!("returned_text_differs_from_text_before_first_stop", json!({"returned": bytes_dbg(&got), "expected": bytes_dbg(want), "stream": stream, "full_text": bytes_dbg(&full)}));
            }
            ctx.rep.nontrivial(fnv(&full) ^ fnv(format!("{:?}{:?}", spec.strings, rx_text).as_bytes()));
        }
        None => {
            ctx.rep.inc("unstopped_runs");
            if lossless {
                if !full.starts_with(&got) {
                    viol!("returned_text_is_not_a_prefix_of_the_decoded_text", json!({"returned": bytes_dbg(&got), "text": bytes_dbg(&full)}));
                }
                let withheld = full.len() - got.len();
                if withheld > spec.max_stop_len + 3 && spec.rx.is_none() {
                    viol!("too_much_text_withheld", json!({"withheld": withheld, "longest_stop": spec.max_stop_len, "returned": bytes_dbg(&got), "text": bytes_dbg(&full)}));
                }
            }
        }
    }
    if idx % 60 == 2 {
        ctx.rep.sample(json!({"api": "StopController", "stop_strings": spec.strings, "stop_regex": rx_text, "stop_tokens": spec.stop_tokens, "text": bytes_dbg(&full).chars().take(120).collect::<String>(), "stopped_at": stop_at}));
    }
}

pub fn run(ctx: &mut Ctx) {
    let n_cases = ctx.pick(16000, 500000);
    for idx in 0..n_cases {
        if !ctx.mine(idx) {
            continue;
        }
        if ctx.out_of_time() {
            break;
        }
        match idx % 4 {
            0 => matcher_case(ctx, idx),
            1 => constraint_case(ctx, idx),
            _ => stop_case(ctx, idx, idx % 4 == 3),
        }
    }
}
