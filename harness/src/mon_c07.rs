//! C07: every valid instance in canonical form (compact standard serialisation, schema key
//! order; optionally with the whitespace the options permit) is accepted token by token.

use crate::ctx::Ctx;
use crate::engine::*;
use crate::gen_json::{InstGen, JsonGen};
use crate::judge::{Judge, Judgement};
use crate::pool::{self, VKind};
use crate::report::bytes_dbg;
use crate::rng::{fnv, Rng};
use crate::vocab::Vocab;
use serde_json::{json, Value};

#[derive(Clone, Debug)]
struct Style {
    item_sep: String,
    key_sep: String,
    /// maximum whitespace characters at each flexible position (0 = compact)
    ws_max: usize,
    ws_chars: Vec<char>,
    name: &'static str,
}

fn ws(rng: &mut Rng, st: &Style) -> String {
    if st.ws_max == 0 || rng.chance(1, 2) {
        return String::new();
    }
    let n = 1 + rng.below(st.ws_max);
    (0..n).map(|_| *rng.pick(&st.ws_chars)).collect()
}

fn ser(rng: &mut Rng, v: &Value, st: &Style, out: &mut String) {
    match v {
        Value::Array(a) => {
            out.push('[');
            if a.is_empty() {
                out.push_str(&ws(rng, st));
            }
            for (i, x) in a.iter().enumerate() {
                if i > 0 {
                    out.push_str(&ws(rng, st));
                    out.push_str(&st.item_sep);
                }
                out.push_str(&ws(rng, st));
                ser(rng, x, st, out);
            }
            if !a.is_empty() {
                out.push_str(&ws(rng, st));
            }
            out.push(']');
        }
        Value::Object(o) => {
            out.push('{');
            if o.is_empty() {
                out.push_str(&ws(rng, st));
            }
            for (i, (k, x)) in o.iter().enumerate() {
                if i > 0 {
                    out.push_str(&ws(rng, st));
                    out.push_str(&st.item_sep);
                }
                out.push_str(&ws(rng, st));
                out.push_str(&serde_json::to_string(k).unwrap());
                out.push_str(&ws(rng, st));
                out.push_str(&st.key_sep);
                out.push_str(&ws(rng, st));
                ser(rng, x, st, out);
            }
            if !o.is_empty() {
                out.push_str(&ws(rng, st));
            }
            out.push('}');
        }
        other => out.push_str(&serde_json::to_string(other).unwrap()),
    }
}

fn random_segmentation(rng: &mut Rng, v: &Vocab, bytes: &[u8]) -> Option<Vec<u32>> {
    let mut out = vec![];
    let mut i = 0;
    while i < bytes.len() {
        let cands = v.trie().all_prefixes(&bytes[i..]);
        if cands.is_empty() {
            return None;
        }
        let t = *rng.pick(&cands);
        i += v.words[t as usize].len();
        out.push(t);
    }
    Some(out)
}

fn run_case(ctx: &mut Ctx, idx: u64) {
    let mut rng = ctx.case_rng(idx);
    let gen = JsonGen { subset: true, max_depth: 1 + rng.below(3) as u32, n_defs: 0 };
    let mut schema = gen.gen_top(&mut rng);
    // whitespace / separator options the schema may carry
    let style = match rng.below(6) {
        0 | 1 => Style { item_sep: ",".into(), key_sep: ":".into(), ws_max: 0, ws_chars: vec![], name: "compact_default_options" },
        2 => Style { item_sep: ",".into(), key_sep: ":".into(), ws_max: 3, ws_chars: vec![' ', '\n', '\t', '\r'], name: "flexible_whitespace" },
        3 => {
            if let Some(o) = schema.as_object_mut() {
                o.insert("x-guidance".into(), json!({"whitespace_flexible": false}));
            }
            Style { item_sep: ",".into(), key_sep: ":".into(), ws_max: 0, ws_chars: vec![], name: "whitespace_flexible_false" }
        }
        4 => {
            if let Some(o) = schema.as_object_mut() {
                o.insert("x-guidance".into(), json!({"whitespace_flexible": false, "item_separator": ", ", "key_separator": ": "}));
            }
            Style { item_sep: ", ".into(), key_sep: ": ".into(), ws_max: 0, ws_chars: vec![], name: "fixed_separators" }
        }
        _ => {
            if let Some(o) = schema.as_object_mut() {
                o.insert("x-guidance".into(), json!({"whitespace_pattern": "[ \\n]{0,2}"}));
            }
            Style { item_sep: ",".into(), key_sep: ":".into(), ws_max: 2, ws_chars: vec![' ', '\n'], name: "whitespace_pattern_0_2" }
        }
    };
    if !schema.is_object() && style.name != "compact_default_options" && style.name != "flexible_whitespace" {
        return;
    }
    let text = serde_json::to_string(&schema).unwrap();
    let g = GCase::json(&format!("c07_{idx}"), &text).tag(style.name);
    let vk = match rng.below(8) {
        0 | 1 => VKind::V1,
        2 | 3 => VKind::Vsyn,
        4 => VKind::VsynC,
        5 => VKind::V1c,
        _ => VKind::Bpe(rng.below(2)),
    };
    let v = pool::make_vocab(&mut rng, &g, vk);
    let Ok(f) = factory(&v, &FactoryOpts::default()) else { return };
    let m0 = match matcher(&f, &g) {
        Ok(m) if !m.is_error() => m,
        Ok(m) => {
            // schemas of the fully supported subset are expected to compile
            let d = json!({"schema": schema, "error": m.get_error().map(|e| e.lines().next().unwrap_or("").to_string())});
            let rp = ctx.replay(idx);
            ctx.rep.violation("subset_schema_rejected", &g.tags, d, rp);
            return;
        }
        Err(e) => {
            let msg = e.to_string();
            // an unsatisfiable generated schema (e.g. empty numeric range) is legitimately refused
            if msg.contains("nsatisfiable") {
                ctx.rep.inc("unsatisfiable_schema_refused");
                return;
            }
            let d = json!({"schema": schema, "error": msg.lines().next()});
            let rp = ctx.replay(idx);
            let kind = if equal_int_and_float_enum_members(&schema, &f) { "enum_with_equal_int_and_float_members_rejected" } else { "subset_schema_rejected" };
            ctx.rep.violation(kind, &g.tags, d, rp);
            return;
        }
    };
    ctx.rep.inc("schemas");
    let judge = Judge::new(&schema);
    let mut ig = InstGen { root: &schema, budget: 600 };
    for _ in 0..ctx.pick(6, 20) {
        let Some(inst) = ig.gen(&mut rng, &schema, 0) else { break };
        // canonical number form: an integral value is written without a fraction (68, not 68.0)
        let inst = normalise_numbers(&inst);
        // both validators must agree that the instance is valid
        let compact = serde_json::to_string(&inst).unwrap();
        match judge.judge_text(compact.as_bytes()) {
            Judgement::Valid => {}
            Judgement::Invalid(_) => {
                ctx.rep.inc("generated_instance_invalid_discarded");
                continue;
            }
            Judgement::Inconclusive(_) => {
                ctx.rep.inconclusive("validators_disagree");
                continue;
            }
        }
        let mut s = String::new();
        ser(&mut rng, &inst, &style, &mut s);
        let bytes = s.as_bytes();
        if bytes.contains(&0xFF) {
            continue;
        }
        // tokenisation: environment's own / greedy / random segmentation
        let toks = match rng.below(3) {
            0 => v.env.tokenize_bytes(bytes),
            1 => v.trie().greedy_tokenize(bytes),
            _ => match random_segmentation(&mut rng, &v, bytes) {
                Some(t) => t,
                None => continue,
            },
        };
        if v.trie().decode_raw(&toks) != bytes {
            ctx.rep.inc("tokenisation_not_roundtrip_skipped");
            continue;
        }
        ctx.rep.inc("instances");
        ctx.rep.add("tokens_fed", toks.len() as u64);
        let mut m = m0.clone();
        // validate_tokens(all) == len
        let vt = m.deep_clone().validate_tokens(&toks).unwrap_or(usize::MAX);
        let mut fail: Option<(usize, &str)> = None;
        for (i, &t) in toks.iter().enumerate() {
            if m.is_stopped() {
                fail = Some((i, "engine stopped before the end of the instance"));
                break;
            }
            if !v.canonical {
                match m.compute_mask() {
                    Ok(mask) => {
                        if !mask.is_allowed(t) {
                            fail = Some((i, "token not in mask"));
                            break;
                        }
                    }
                    Err(_) => {
                        fail = Some((i, "mask error"));
                        break;
                    }
                }
            }
            if m.consume_token(t).is_err() {
                fail = Some((i, "token rejected on commit"));
                break;
            }
        }
        let accepted_end = fail.is_none() && (if m.is_stopped() { m.stop_reason().is_ok() } else { m.is_accepting().unwrap_or(false) });
        if fail.is_some() || !accepted_end || vt != toks.len() {
            if is_resource_stop(&m) || resource_stop_on_replay(&f, &g, &toks) {
                ctx.rep.inconclusive("resource_stop");
                continue;
            }
            let (pos, what) = fail.unwrap_or((toks.len(), if !accepted_end { "not accepting at the end" } else { "validate_tokens shorter than the instance" }));
            let consumed: usize = toks[..pos.min(toks.len())].iter().map(|&t| v.words[t as usize].len()).sum();
            let d = json!({"schema": schema, "style": style.name, "vocab": v.name, "instance_text": s, "failed_at_token": pos, "what": what,
                "accepted_prefix": bytes_dbg(&bytes[..consumed.min(bytes.len())]), "rejected_token_bytes": toks.get(pos).map(|&t| bytes_dbg(&v.words[t as usize])), "validate_tokens": vt, "n_tokens": toks.len()});
            let rp = ctx.replay(idx);
            let kind = classify(&schema, &s, &bytes[..consumed.min(bytes.len())], what);
            ctx.rep.violation(&kind, &g.tags, d, rp);
            if kind == "raw_del_character_in_string_rejected" {
                continue; // keep exploring this schema with other instances
            }
            return;
        }
        if toks.len() >= 4 {
            ctx.rep.nontrivial(fnv(text.as_bytes()) ^ fnv(bytes).rotate_left(23) ^ fnv(v.name.as_bytes()));
        }
        if rng.chance(1, 400) {
            ctx.rep.sample(json!({"schema": schema, "style": style.name, "vocab": v.name, "instance_text": s, "n_tokens": toks.len()}));
        }
    }
}

fn normalise_numbers(v: &Value) -> Value {
    match v {
        Value::Number(n) => {
            if let (None, Some(f)) = (n.as_i64(), n.as_f64()) {
                if f.fract() == 0.0 && f.abs() < 1e15 {
                    return json!(f as i64);
                }
            }
            v.clone()
        }
        Value::Array(a) => Value::Array(a.iter().map(normalise_numbers).collect()),
        Value::Object(o) => Value::Object(o.iter().map(|(k, x)| (k.clone(), normalise_numbers(x))).collect()),
        _ => v.clone(),
    }
}

/// The refusal has the recorded shape when some `enum` lists the same number once as an integer and once as a
/// float (`[-92.0, -92]`) AND that two-member enum alone is refused as well.
fn equal_int_and_float_enum_members(s: &Value, f: &llguidance::ParserFactory) -> bool {
    match s {
        Value::Object(o) => {
            if let Some(e) = o.get("enum").and_then(|e| e.as_array()) {
                let nums: Vec<&serde_json::Number> = e.iter().filter_map(|x| x.as_number()).collect();
                for (i, a) in nums.iter().enumerate() {
                    for b in &nums[i + 1..] {
                        if a.to_string() != b.to_string() && a.as_f64() == b.as_f64() && (a.is_f64() != b.is_f64()) {
                            let g = GCase::json("c07_enum2", &json!({"enum": [a, b]}).to_string());
                            let refused = match matcher(f, &g) {
                                Ok(m) => m.is_error(),
                                Err(_) => true,
                            };
                            if refused {
                                return true;
                            }
                        }
                    }
                }
            }
            o.values().any(|v| equal_int_and_float_enum_members(v, f))
        }
        Value::Array(a) => a.iter().any(|v| equal_int_and_float_enum_members(v, f)),
        _ => false,
    }
}

/// every sub-schema that carries numeric keywords, reduced to exactly those keywords
fn numeric_subschemas(s: &Value, out: &mut Vec<Value>) {
    match s {
        Value::Object(o) => {
            let keys = ["minimum", "maximum", "exclusiveMinimum", "exclusiveMaximum", "multipleOf"];
            if keys.iter().any(|k| o.get(*k).is_some_and(|v| v.is_number())) {
                let mut r = serde_json::Map::new();
                let ty = if o.get("type").and_then(|t| t.as_str()) == Some("integer") { "integer" } else { "number" };
                r.insert("type".into(), json!(ty));
                for k in keys {
                    if let Some(v) = o.get(k).filter(|v| v.is_number()) {
                        r.insert(k.to_string(), v.clone());
                    }
                }
                out.push(Value::Object(r));
            }
            for v in o.values() {
                numeric_subschemas(v, out);
            }
        }
        Value::Array(a) => a.iter().for_each(|v| numeric_subschemas(v, out)),
        _ => {}
    }
}

/// The rejection is the numeric-literal defect already recorded for C08 when, in isolation, the number
/// sub-schema (numeric keywords only) also rejects the literal although exact arithmetic admits it, and
/// the literal has the recorded shape.
fn classify_number(schema: &Value, text: &str, at: usize) -> Option<String> {
    let b = text.as_bytes();
    let numch = |c: u8| c.is_ascii_digit() || matches!(c, b'.' | b'-' | b'+' | b'e' | b'E');
    let mut lo = at.min(b.len());
    while lo > 0 && numch(b[lo - 1]) {
        lo -= 1;
    }
    let mut hi = at.min(b.len());
    while hi < b.len() && numch(b[hi]) {
        hi += 1;
    }
    let lit = &text[lo..hi];
    if lit.is_empty() || !lit.bytes().any(|c| c.is_ascii_digit()) || lit.contains(['e', 'E']) {
        return None;
    }
    let frac_len = |t: &str| t.split('.').nth(1).map_or(0, |f| f.len());
    let mut subs = vec![];
    numeric_subschemas(schema, &mut subs);
    let v1 = crate::vocab::v1(false);
    let f1 = factory_noslice(&v1).ok()?;
    for sub in subs {
        let judge = Judge::new(&sub);
        if !matches!(judge.judge_text(lit.as_bytes()), Judgement::Valid) {
            continue;
        }
        let g = GCase::json("c07_num", &sub.to_string());
        let Ok(m0) = matcher(&f1, &g) else { continue };
        if m0.is_error() {
            continue;
        }
        let mut m = m0;
        let mut ok = true;
        for &c in lit.as_bytes() {
            if m.is_stopped() || m.consume_token(c as u32).is_err() {
                ok = false;
                break;
            }
        }
        let accepted = ok && (if m.is_stopped() { m.stop_reason().is_ok() } else { m.is_accepting().unwrap_or(false) });
        if accepted {
            continue;
        }
        // isolated sub-schema rejects a literal that exact arithmetic admits: which recorded shape?
        let o = sub.as_object().unwrap();
        for k in ["minimum", "maximum", "exclusiveMinimum", "exclusiveMaximum"] {
            if let Some(bt) = o.get(k).map(|v| v.to_string()) {
                if lit.contains('.') && bt.len() > lit.len() && bt.starts_with(lit) {
                    return Some("truncated_bound_literal_rejected".into());
                }
            }
        }
        if let Some(mt) = o.get("multipleOf").map(|v| v.to_string()) {
            if frac_len(lit) >= 1 && frac_len(lit) < frac_len(&mt) {
                return Some("short_fraction_under_multipleof_rejected".into());
            }
        }
    }
    None
}

/// failure family by verified pattern
fn classify(schema: &Value, text: &str, accepted_prefix: &[u8], what: &str) -> String {
    let rest = &text.as_bytes()[accepted_prefix.len()..];
    if rest.first() == Some(&0x7F) {
        return "raw_del_character_in_string_rejected".into();
    }
    let _ = what;
    if let Some(k) = classify_number(schema, text, accepted_prefix.len()) {
        return k;
    }
    "valid_canonical_instance_rejected".into()
}

pub fn run(ctx: &mut Ctx) {
    let n_cases = ctx.pick(12000, 2000000);
    for idx in 0..n_cases {
        if !ctx.mine(idx) {
            continue;
        }
        if ctx.out_of_time() {
            break;
        }
        run_case(ctx, idx);
    }
}
