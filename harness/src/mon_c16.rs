//! C16: vocabulary handling vs naive models. Core (trie, token sets) in mon_c16_core.rs;
//! here: tokenizer adapters (HF tokenizer.json byte-level / byte-fallback, tiktoken ranks).

use crate::ctx::Ctx;
use crate::mon_c16_core;
use crate::report::bytes_dbg;
use crate::rng::{fnv, Rng};
use serde_json::{json, Value};
use toktrie::TokenizerEnv;

/// GPT-2 bytes_to_unicode, coded independently of the adapters
fn byte_to_char(b: u8) -> char {
    let printable = |b: u32| (0x21..=0x7e).contains(&b) || (0xa1..=0xac).contains(&b) || (0xae..=0xff).contains(&b);
    if printable(b as u32) {
        return char::from_u32(b as u32).unwrap();
    }
    let mut n = 0u32;
    for x in 0..(b as u32) {
        if !printable(x) {
            n += 1;
        }
    }
    char::from_u32(256 + n).unwrap()
}

fn bl_name(bytes: &[u8]) -> String {
    bytes.iter().map(|&b| byte_to_char(b)).collect()
}

struct HfSpec {
    json: Value,
    /// expected bytes per id for regular tokens (None = special / adapter policy)
    expect: Vec<Option<Vec<u8>>>,
    specials: Vec<(usize, String)>,
    kind: &'static str,
}

fn random_text(rng: &mut Rng, pieces: &[Vec<u8>], invalid_utf8: bool) -> Vec<u8> {
    let mut t = vec![];
    for _ in 0..1 + rng.below(10) {
        match rng.below(6) {
            0 => t.extend_from_slice("\u{e9}\u{65e5} ".as_bytes()),
            1 => t.extend_from_slice(b"hello world 123"),
            2 if invalid_utf8 => t.push(0x80 + rng.below(0x7f) as u8), // stray continuation / invalid lead (never 0xFF)
            3 => t.extend_from_slice("\u{1f422}".as_bytes()),
            _ => {
                let p: &Vec<u8> = rng.pick(pieces);
                t.extend_from_slice(p)
            }
        }
    }
    t.retain(|&b| b != 0xFF);
    t
}

fn byte_level_spec(rng: &mut Rng) -> (HfSpec, Vec<Vec<u8>>) {
    // 256 byte tokens in byte order, then merges
    let mut toks: Vec<Vec<u8>> = (0..=255u8).map(|b| vec![b]).collect();
    let mut merges: Vec<(Vec<u8>, Vec<u8>)> = vec![];
    let seeds: Vec<&[u8]> = vec![b"he", b"ll", b"hell", b"hello", b" w", b"or", b" wor", b"ld", "\u{e9}".as_bytes(), "\u{65e5}".as_bytes(), b"12", b"123", b"  ", b"ab", b"abab", b"\n\n"];
    for s in seeds {
        if rng.chance(4, 5) {
            // split s into two existing tokens if possible
            for k in 1..s.len() {
                let (l, r) = (s[..k].to_vec(), s[k..].to_vec());
                if toks.contains(&l) && toks.contains(&r) && !toks.contains(&s.to_vec()) {
                    merges.push((l, r));
                    toks.push(s.to_vec());
                    break;
                }
            }
        }
    }
    let n_regular = toks.len();
    let mut vocab = serde_json::Map::new();
    for (i, t) in toks.iter().enumerate() {
        vocab.insert(bl_name(t), json!(i));
    }
    let merges_json: Vec<Value> = merges.iter().map(|(l, r)| json!(format!("{} {}", bl_name(l), bl_name(r)))).collect();
    let mut added = vec![];
    let mut specials = vec![];
    let eos_id = n_regular;
    added.push(json!({"id": eos_id, "content": "<|endoftext|>", "single_word": false, "lstrip": false, "rstrip": false, "normalized": false, "special": true}));
    specials.push((eos_id, "<|endoftext|>".to_string()));
    added.push(json!({"id": eos_id + 1, "content": "[SPECIAL_NO_BRACKETS]", "single_word": false, "lstrip": false, "rstrip": false, "normalized": false, "special": true}));
    specials.push((eos_id + 1, "[SPECIAL_NO_BRACKETS]".to_string()));
    added.push(json!({"id": eos_id + 2, "content": "plainadded", "single_word": false, "lstrip": false, "rstrip": false, "normalized": false, "special": false}));
    let mut expect: Vec<Option<Vec<u8>>> = toks.iter().map(|t| Some(t.clone())).collect();
    expect.push(None);
    expect.push(None);
    expect.push(Some(b"plainadded".to_vec()));
    let json = json!({
        "version": "1.0", "truncation": null, "padding": null, "added_tokens": added,
        "normalizer": null,
        "pre_tokenizer": {"type": "ByteLevel", "add_prefix_space": false, "trim_offsets": true, "use_regex": true},
        "post_processor": null,
        "decoder": {"type": "ByteLevel", "add_prefix_space": true, "trim_offsets": true, "use_regex": true},
        "model": {"type": "BPE", "dropout": null, "unk_token": null, "continuing_subword_prefix": "", "end_of_word_suffix": "", "fuse_unk": false, "byte_fallback": false, "vocab": vocab, "merges": merges_json}
    });
    (HfSpec { json, expect, specials, kind: "byte_level" }, toks)
}

fn byte_fallback_spec(rng: &mut Rng) -> (HfSpec, Vec<Vec<u8>>) {
    let sp = '\u{2581}';
    let mut names: Vec<String> = vec!["<unk>".into(), "<s>".into(), "</s>".into()];
    for b in 0..=255u32 {
        names.push(format!("<0x{b:02X}>"));
    }
    let base: Vec<&str> = vec!["\u{2581}", "a", "b", "h", "e", "l", "o", "w", "r", "d", "1", "2", "3", "\u{e9}"];
    for p in &base {
        names.push(p.to_string());
    }
    let mut merges: Vec<(String, String)> = vec![];
    let cands: Vec<(&str, &str)> = vec![("h", "e"), ("l", "l"), ("he", "ll"), ("hell", "o"), ("\u{2581}", "w"), ("o", "r"), ("\u{2581}w", "or"), ("l", "d"), ("a", "b"), ("1", "2"), ("\u{2581}", "\u{2581}")];
    for (l, r) in cands {
        if rng.chance(4, 5) && names.contains(&l.to_string()) && names.contains(&r.to_string()) {
            let m = format!("{l}{r}");
            if !names.contains(&m) {
                merges.push((l.to_string(), r.to_string()));
                names.push(m);
            }
        }
    }
    let mut vocab = serde_json::Map::new();
    for (i, n) in names.iter().enumerate() {
        vocab.insert(n.clone(), json!(i));
    }
    let expect: Vec<Option<Vec<u8>>> = names
        .iter()
        .enumerate()
        .map(|(i, n)| {
            if i < 3 {
                None
            } else if (3..259).contains(&i) {
                Some(vec![(i - 3) as u8])
            } else {
                Some(n.replace(sp, " ").into_bytes())
            }
        })
        .collect();
    let added = vec![
        json!({"id": 0, "content": "<unk>", "single_word": false, "lstrip": false, "rstrip": false, "normalized": false, "special": true}),
        json!({"id": 1, "content": "<s>", "single_word": false, "lstrip": false, "rstrip": false, "normalized": false, "special": true}),
        json!({"id": 2, "content": "</s>", "single_word": false, "lstrip": false, "rstrip": false, "normalized": false, "special": true}),
    ];
    let specials = vec![(0usize, "<unk>".to_string()), (1, "<s>".to_string()), (2, "</s>".to_string())];
    let merges_json: Vec<Value> = merges.iter().map(|(l, r)| json!(format!("{l} {r}"))).collect();
    let json = json!({
        "version": "1.0", "truncation": null, "padding": null, "added_tokens": added,
        "normalizer": {"type": "Sequence", "normalizers": [{"type": "Replace", "pattern": {"String": " "}, "content": "\u{2581}"}]},
        "pre_tokenizer": null, "post_processor": null,
        "decoder": {"type": "Sequence", "decoders": [{"type": "Replace", "pattern": {"String": "\u{2581}"}, "content": " "}, {"type": "ByteFallback"}, {"type": "Fuse"}]},
        "model": {"type": "BPE", "dropout": null, "unk_token": "<unk>", "continuing_subword_prefix": null, "end_of_word_suffix": null, "fuse_unk": true, "byte_fallback": true, "vocab": vocab, "merges": merges_json}
    });
    let pieces: Vec<Vec<u8>> = expect.iter().flatten().cloned().collect();
    (HfSpec { json, expect, specials, kind: "byte_fallback" }, pieces)
}

fn adapter_case(ctx: &mut Ctx, idx: u64) {
    let mut rng = ctx.case_rng(idx);
    let replay = ctx.replay(idx);
    macro_rules! viol {
        ($kind:expr, $detail:expr) => {{
            ctx.rep.violation($kind, &["adapter".to_string()], $detail, replay.clone());
            return;
        }};
    }
    match rng.below(3) {
        0 | 1 => {
            let (spec, pieces) = if rng.chance(1, 2) { byte_level_spec(&mut rng) } else { byte_fallback_spec(&mut rng) };
            ctx.rep.inc(&format!("adapter.{}", spec.kind));
            let text = serde_json::to_vec(&spec.json).unwrap();
            let bt = match toktrie_hf_tokenizers::ByteTokenizer::from_json_bytes(&text) {
                Ok(b) => b,
                Err(e) => viol!("synthetic_tokenizer_json_rejected", json!({"kind": spec.kind, "error": e.to_string()})),
            };
            let tb = bt.token_bytes();
            let tb2 = match llguidance::token_bytes_from_tokenizer_json(&spec.json) {
                Ok(t) => t,
                Err(e) => viol!("token_bytes_from_tokenizer_json_failed", json!({"kind": spec.kind, "error": e.to_string()})),
            };
            for (id, exp) in spec.expect.iter().enumerate() {
                ctx.rep.inc("adapter_token_checks");
                if let Some(exp) = exp {
                    if tb.get(id) != Some(exp) {
                        viol!("hf_adapter_token_bytes", json!({"kind": spec.kind, "id": id, "got": tb.get(id).map(|b| bytes_dbg(b)), "want": bytes_dbg(exp)}));
                    }
                    if tb2.get(id) != Some(exp) {
                        viol!("tokenizer_json_token_bytes", json!({"kind": spec.kind, "id": id, "got": tb2.get(id).map(|b| bytes_dbg(b)), "want": bytes_dbg(exp)}));
                    }
                }
            }
            for (id, name) in &spec.specials {
                let mut want = vec![0xFFu8];
                want.extend_from_slice(name.as_bytes());
                if tb.get(*id) != Some(&want) {
                    viol!("hf_adapter_special_not_marked", json!({"kind": spec.kind, "id": id, "got": tb.get(*id).map(|b| bytes_dbg(b))}));
                }
                if tb2.get(*id) != Some(&want) {
                    viol!("tokenizer_json_special_not_marked", json!({"kind": spec.kind, "id": id, "got": tb2.get(*id).map(|b| bytes_dbg(b))}));
                }
            }
            let env = match bt.into_tok_env(if rng.chance(1, 2) { Some(tb.len() + rng.below(40)) } else { None }) {
                Ok(e) => e,
                Err(e) => viol!("into_tok_env_failed", json!({"error": e.to_string()})),
            };
            for _ in 0..12 {
                let t = random_text(&mut rng, &pieces, true);
                let toks = env.tokenize_bytes(&t);
                let back = env.tok_trie().decode_raw(&toks);
                ctx.rep.inc("tokenize_roundtrips");
                if back != t {
                    viol!("tokenize_bytes_concat_differs", json!({"kind": spec.kind, "text": bytes_dbg(&t), "tokens": toks, "concat": bytes_dbg(&back)}));
                }
                if toks.iter().any(|&tk| env.tok_trie().is_special_token(tk)) {
                    viol!("plain_text_tokenised_to_special", json!({"kind": spec.kind, "text": bytes_dbg(&t), "tokens": toks}));
                }
            }
            ctx.rep.nontrivial(fnv(&text) ^ idx);
            if idx % 50 == 0 {
                ctx.rep.sample(json!({"scenario": spec.kind, "n_vocab": tb.len(), "merges": spec.json["model"]["merges"]}));
            }
        }
        _ => {
            // tiktoken ranks with holes
            let n = *rng.pick(&[300usize, 512, 700]);
            let Ok(mut enc) = crate::vocab::cl100k_ranks(n) else { return };
            // punch holes above the byte range (ranks are looked up by bytes, so removal keeps BPE valid
            // only if no later merge needs the removed token: remove from the top end)
            let holes = rng.below(6);
            let mut removed = vec![];
            for _ in 0..holes {
                if let Some((b, r)) = enc.pop() {
                    removed.push((b, r));
                }
            }
            let max_rank = enc.iter().map(|(_, r)| *r).max().unwrap_or(0);
            let gap = rng.below(5) as u32;
            let eos = max_rank + 1 + gap;
            let specials = vec![("<|endoftext|>".to_string(), eos)];
            let override_n = if rng.chance(1, 2) { Some(eos as usize + 1 + rng.below(30)) } else { None };
            let tk = match toktrie_tiktoken::TikTokenBPE::new(enc.clone(), specials, crate::vocab::CL100K_PAT, override_n, eos) {
                Ok(t) => t,
                Err(e) => viol!("tiktoken_new_failed", json!({"error": e.to_string()})),
            };
            ctx.rep.inc("adapter.tiktoken");
            let env = tk.to_env();
            let trie = env.tok_trie();
            for (b, r) in &enc {
                ctx.rep.inc("adapter_token_checks");
                if trie.token(*r) != &b[..] {
                    viol!("tiktoken_token_bytes", json!({"rank": r, "got": bytes_dbg(trie.token(*r)), "want": bytes_dbg(b)}));
                }
            }
            let mut want = vec![0xFFu8];
            want.extend_from_slice(b"<|endoftext|>");
            if trie.token(eos) != &want[..] {
                viol!("tiktoken_special_not_marked", json!({"got": bytes_dbg(trie.token(eos))}));
            }
            for id in (max_rank + 1)..trie.vocab_size() as u32 {
                if id != eos && !(trie.token(id).first() == Some(&0xFF)) {
                    viol!("tiktoken_hole_not_placeholder_special", json!({"id": id, "got": bytes_dbg(trie.token(id))}));
                }
            }
            let pieces: Vec<Vec<u8>> = enc.iter().filter(|(b, _)| b.len() > 1).take(60).map(|(b, _)| b.clone()).collect();
            for _ in 0..12 {
                let t = random_text(&mut rng, &pieces, true);
                let toks = env.tokenize_bytes(&t);
                let back = trie.decode_raw(&toks);
                ctx.rep.inc("tokenize_roundtrips");
                if back != t {
                    viol!("tokenize_bytes_concat_differs", json!({"kind": "tiktoken", "text": bytes_dbg(&t), "tokens": toks, "concat": bytes_dbg(&back)}));
                }
            }
            ctx.rep.nontrivial(idx ^ 0x71c);
        }
    }
}

pub fn run(ctx: &mut Ctx) {
    // core: trie + token sets
    let n_core = ctx.pick(6000, 200000);
    let (seed, shard, nshards) = (ctx.seed, ctx.shard as u64, ctx.nshards as u64);
    if let Some(o) = ctx.only {
        if o < 1_000_000_000 {
            mon_c16_core::run_core(&mut ctx.rep, seed, o, o + 1, 1, 0, false, u128::MAX);
            return;
        }
    } else {
        let ms = ctx.soft_deadline.as_millis() * 2 / 3;
        mon_c16_core::run_core(&mut ctx.rep, seed, 0, n_core, nshards, shard, false, ms);
    }
    // adapters
    let n_ad = ctx.pick(300, 6000);
    for i in 0..n_ad {
        let idx = 1_000_000_000 + i;
        if !ctx.mine(idx) {
            continue;
        }
        if ctx.out_of_time() {
            break;
        }
        adapter_case(ctx, idx);
    }
}
