//! C17, auxiliary C functions: tokenizer construction (v1 / v2 / callback tokenizer), tokenisation and decoding
//! into caller buffers of every length around the result size, grammar validation messages, the typed
//! constraint constructors, matcher clone / consume_tokens / reset / get_error, and the stop controller.
//! Every call is mirrored on Rust objects; every destination buffer carries canaries.

use crate::ctx::Ctx;
use crate::engine::*;
use crate::pool;
use crate::rng::{fnv, Rng};
use crate::vocab::{self, Vocab};
use crate::walker;
use llguidance::ffi::*;
use llguidance::toktrie::TokTrie;
use llguidance::{Constraint, Matcher, StopController};
use serde_json::json;
use std::ffi::{c_void, CStr, CString};
use std::sync::Mutex;

const CANARY8: u8 = 0xC7;
const CANARY32: u32 = 0xC0DE_CAFE;
const PAD: usize = 24;

struct G<T: Copy + PartialEq> {
    buf: Vec<T>,
    n: usize,
    canary: T,
}

impl<T: Copy + PartialEq> G<T> {
    fn new(n: usize, fill: T, canary: T) -> Self {
        let mut buf = vec![canary; PAD + n + PAD];
        for w in &mut buf[PAD..PAD + n] {
            *w = fill;
        }
        G { buf, n, canary }
    }
    fn ptr(&mut self) -> *mut T {
        unsafe { self.buf.as_mut_ptr().add(PAD) }
    }
    fn data(&self) -> &[T] {
        &self.buf[PAD..PAD + self.n]
    }
    fn ok(&self) -> bool {
        self.buf[..PAD].iter().all(|w| *w == self.canary) && self.buf[PAD + self.n..].iter().all(|w| *w == self.canary)
    }
}

/// State handed to the C tokenizer callback through `tokenize_user_data`.
struct CbState {
    trie: TokTrie,
    /// (input length, output capacity offered, tokens needed)
    calls: Mutex<Vec<(usize, usize, usize)>>,
}

/// "shortest match" tokenisation: the single-byte token where there is one, else the greedy choice —
/// deliberately different from the library's own greedy tokeniser so that the monitor can tell
/// whether the callback was really consulted.
fn cb_model(trie: &TokTrie, s: &[u8]) -> Vec<u32> {
    let mut out = vec![];
    let mut i = 0;
    while i < s.len() {
        if let Some(t) = trie.token_id(&s[i..i + 1]) {
            out.push(t);
            i += 1;
        } else {
            let g = trie.greedy_tokenize(&s[i..i + 1]);
            out.extend(g);
            i += 1;
        }
    }
    out
}

extern "C" fn tokenize_cb(user: *const c_void, bytes: *const u8, len: usize, out: *mut u32, out_len: usize) -> usize {
    let st = unsafe { &*(user as *const CbState) };
    let s = if len == 0 { &[][..] } else { unsafe { std::slice::from_raw_parts(bytes, len) } };
    let toks = cb_model(&st.trie, s);
    let k = toks.len().min(out_len);
    if k > 0 {
        unsafe { std::ptr::copy_nonoverlapping(toks.as_ptr(), out, k) };
    }
    st.calls.lock().unwrap().push((len, out_len, toks.len()));
    toks.len()
}

struct Tok(*mut LlgTokenizer);
impl Drop for Tok {
    fn drop(&mut self) {
        unsafe { llg_free_tokenizer(self.0) }
    }
}

fn words_flat(v: &Vocab) -> (Vec<u32>, Vec<u8>) {
    (v.words.iter().map(|w| w.len() as u32).collect(), v.words.concat())
}

fn make_vocab(rng: &mut Rng, n: usize) -> Vocab {
    let mut words: Vec<Vec<u8>> = (0..=254u8).map(|b| vec![b]).collect();
    let samples = vocab::generic_samples();
    let mut seen: std::collections::HashSet<Vec<u8>> = words.iter().cloned().collect();
    let mut guard = 0;
    while words.len() < n - 3 && guard < 50000 {
        guard += 1;
        let s = rng.pick(&samples);
        let len = 2 + rng.below(6);
        if s.len() <= len {
            continue;
        }
        let off = rng.below(s.len() - len);
        let w = s[off..off + len].to_vec();
        if w.contains(&0xFF) {
            continue;
        }
        if seen.insert(w.clone()) {
            words.push(w);
        } else if guard > 10000 {
            words.push(format!("~{}~", words.len()).into_bytes());
        }
    }
    for name in ["<|tool|>", "<x>", "<|end|>"] {
        let mut w = vec![0xFFu8];
        w.extend_from_slice(name.as_bytes());
        words.push(w);
    }
    let e = (words.len() - 1) as u32;
    Vocab::from_words(&format!("Vaux{n}"), words, e, false)
}

fn sample_text(rng: &mut Rng, with_marker: bool) -> Vec<u8> {
    let samples = vocab::generic_samples();
    let mut out = vec![];
    let parts = 1 + rng.below(4);
    for _ in 0..parts {
        let s = rng.pick(&samples);
        if s.is_empty() {
            continue;
        }
        let a = rng.below(s.len());
        let b = a + rng.below((s.len() - a).min(40) + 1);
        out.extend_from_slice(&s[a..b]);
        match rng.below(8) {
            0 => out.extend_from_slice("é☃𝄞".as_bytes()),
            1 => out.push(0x80 + rng.below(0x40) as u8), // stray continuation byte
            2 if with_marker => {
                out.push(0xFF);
                let names: [&[u8]; 6] = [b"<|tool|>", b"<x>", b"<|end|>", b"<nope>", b"[3]", b"<"];
                out.extend_from_slice(names[rng.below(names.len())]);
            }
            3 => out.extend_from_slice(b"<|tool|>"),
            _ => {}
        }
    }
    out.retain(|&b| with_marker || b != 0xFF);
    out
}

type V = Result<(), (String, serde_json::Value)>;

fn check_tokenize(ctx: &mut Ctx, rng: &mut Rng, tok: &Tok, v: &Vocab, model: &dyn Fn(&[u8]) -> Option<Vec<u32>>, marker: bool, what: &str) -> V {
    let text = sample_text(rng, marker);
    let t = unsafe { &*tok.0 };
    let n_null = unsafe {
        if marker {
            llg_tokenize_bytes_marker(t, text.as_ptr(), text.len(), std::ptr::null_mut(), 0)
        } else {
            llg_tokenize_bytes(t, text.as_ptr(), text.len(), std::ptr::null_mut(), 0)
        }
    };
    let want = model(&text);
    if let Some(w) = &want {
        if w.len() != n_null {
            return Err(("tokenize_count_differs".into(), json!({"what": what, "text": crate::report::bytes_dbg(&text), "c": n_null, "model": w.len()})));
        }
    }
    let mut lens: Vec<usize> = vec![0, 1, n_null.saturating_sub(1), n_null, n_null + 1, n_null + 7];
    lens.push(rng.below(n_null + 2));
    for cap in lens {
        let mut g = G::new(cap, 0x5151_5151u32, CANARY32);
        let n = unsafe {
            if marker {
                llg_tokenize_bytes_marker(t, text.as_ptr(), text.len(), g.ptr(), cap)
            } else {
                llg_tokenize_bytes(t, text.as_ptr(), text.len(), g.ptr(), cap)
            }
        };
        ctx.rep.inc("tokenize_buffers_checked");
        if !g.ok() {
            return Err(("write_outside_caller_buffer".into(), json!({"what": what, "cap": cap, "n": n})));
        }
        if n != n_null {
            return Err(("tokenize_count_depends_on_buffer".into(), json!({"what": what, "cap": cap, "n": n, "n_null": n_null})));
        }
        let k = n.min(cap);
        let got = &g.data()[..k];
        if let Some(w) = &want {
            if got != &w[..k] {
                return Err(("tokenize_result_differs".into(), json!({"what": what, "cap": cap, "text": crate::report::bytes_dbg(&text), "c": got, "model": &w[..k]})));
            }
        }
        if cap >= n {
            // whatever the tokeniser: ids are real and the bytes come back
            if got.iter().any(|&t| t as usize >= v.n()) {
                return Err(("tokenize_returned_id_out_of_range".into(), json!({"what": what, "c": got})));
            }
            if !marker {
                let back: Vec<u8> = got.iter().flat_map(|&t| v.words[t as usize].clone()).collect();
                if back != text {
                    return Err(("tokenize_bytes_do_not_round_trip".into(), json!({"what": what, "text": crate::report::bytes_dbg(&text), "back": crate::report::bytes_dbg(&back)})));
                }
            }
        }
    }
    Ok(())
}

fn check_decode(ctx: &mut Ctx, rng: &mut Rng, tok: &Tok, v: &Vocab) -> V {
    let t = unsafe { &*tok.0 };
    let n_t = rng.below(12);
    let toks: Vec<u32> = (0..n_t)
        .map(|_| match rng.below(10) {
            0 => v.n() as u32 + rng.below(5) as u32,
            1 => *rng.pick(&v.specials),
            2 => u32::MAX - rng.below(2) as u32,
            _ => rng.below(v.n()) as u32,
        })
        .collect();
    for flags in 0..4u32 {
        let raw = v.trie().decode_ext(&toks, flags & 1 != 0);
        let want: Vec<u8> = if flags & 2 != 0 { String::from_utf8_lossy(&raw).to_string().into_bytes() } else { raw };
        let need = unsafe { llg_decode_tokens(t, toks.as_ptr(), toks.len(), std::ptr::null_mut(), 0, flags) };
        if need != want.len() + 1 {
            return Err(("decode_length_differs".into(), json!({"flags": flags, "tokens": toks, "c": need, "model": want.len() + 1})));
        }
        let mut caps = vec![0usize, 1, 2, want.len(), want.len() + 1, want.len() + 2, want.len() + 9];
        caps.push(rng.below(want.len() + 2));
        for cap in caps {
            let mut g = G::new(cap, 0x33u8, CANARY8);
            let n = unsafe { llg_decode_tokens(t, toks.as_ptr(), toks.len(), g.ptr() as *mut _, cap, flags) };
            ctx.rep.inc("decode_buffers_checked");
            if !g.ok() {
                return Err(("write_outside_caller_buffer".into(), json!({"fn": "llg_decode_tokens", "cap": cap, "flags": flags, "tokens": toks})));
            }
            if n != want.len() + 1 {
                return Err(("decode_length_depends_on_buffer".into(), json!({"cap": cap, "n": n})));
            }
            if cap > 0 {
                let k = want.len().min(cap - 1);
                if g.data()[..k] != want[..k] || g.data()[k] != 0 {
                    return Err(("decode_result_differs_or_not_terminated".into(), json!({"cap": cap, "flags": flags, "tokens": toks, "c": crate::report::bytes_dbg(&g.data()[..k + 1]), "model": crate::report::bytes_dbg(&want[..k])})));
                }
            }
        }
    }
    // stringify
    let want = v.trie().tokens_dbg(&toks).into_bytes();
    for cap in [0usize, 1, want.len() / 2, want.len(), want.len() + 1, want.len() + 5] {
        let mut g = G::new(cap, 0x33u8, CANARY8);
        let n = unsafe { llg_stringify_tokens(t, toks.as_ptr(), toks.len(), g.ptr() as *mut _, cap) };
        ctx.rep.inc("decode_buffers_checked");
        if !g.ok() {
            return Err(("write_outside_caller_buffer".into(), json!({"fn": "llg_stringify_tokens", "cap": cap})));
        }
        if n != want.len() + 1 {
            return Err(("stringify_length_differs".into(), json!({"cap": cap, "n": n, "model": want.len() + 1})));
        }
        if cap > 0 {
            let k = want.len().min(cap - 1);
            if g.data()[..k] != want[..k] || g.data()[k] != 0 {
                return Err(("stringify_result_differs_or_not_terminated".into(), json!({"cap": cap})));
            }
        }
    }
    Ok(())
}

fn tokenizer_block(ctx: &mut Ctx, rng: &mut Rng, v: &Vocab) -> V {
    let (lens, bytes) = words_flat(v);
    let mut err = G::new(128, 0u8, CANARY8);
    // --- v1, library greedy tokeniser
    let init = LlgTokenizerInit {
        vocab_size: v.n() as u32,
        tok_eos: v.eos,
        token_lens: lens.as_ptr(),
        token_bytes: bytes.as_ptr(),
        tokenizer_json: std::ptr::null(),
        tokenize_assumes_string: false,
        tokenize_fn: None,
        use_approximate_greedy_tokenize_fn: true,
        tokenize_user_data: std::ptr::null(),
        slices: std::ptr::null(),
    };
    let p = unsafe { llg_new_tokenizer(&init, err.ptr() as *mut _, 128) };
    if p.is_null() {
        return Err(("llg_new_tokenizer_failed".into(), json!({"n_vocab": v.n()})));
    }
    let t1 = Tok(p);
    let trie = v.trie().clone();
    let env = v.env.clone();
    check_tokenize(ctx, rng, &t1, v, &|s| Some(trie.greedy_tokenize(s)), false, "v1_greedy")?;
    check_tokenize(ctx, rng, &t1, v, &|s| Some(env.tokenize_bytes_marker(s).0), true, "v1_greedy_marker")?;
    check_decode(ctx, rng, &t1, v)?;
    // clone; free the original first
    let t1c = Tok(llg_clone_tokenizer(unsafe { &*t1.0 }));
    drop(t1);
    check_tokenize(ctx, rng, &t1c, v, &|s| Some(trie.greedy_tokenize(s)), false, "v1_clone_after_free_of_original")?;
    check_decode(ctx, rng, &t1c, v)?;

    // --- neither tokeniser given: must be refused, message inside the buffer
    for cap in [1usize, 2, 7, 40, 128] {
        let mut e = G::new(cap, 0x44u8, CANARY8);
        let bad = LlgTokenizerInit { use_approximate_greedy_tokenize_fn: false, ..copy_init(&init) };
        let p = unsafe { llg_new_tokenizer(&bad, e.ptr() as *mut _, cap) };
        ctx.rep.inc("error_buffers_checked");
        if !p.is_null() {
            unsafe { llg_free_tokenizer(p) };
            return Err(("tokenizer_without_tokenize_fn_accepted".into(), json!({})));
        }
        if !e.ok() || !e.data().contains(&0) {
            return Err(("error_string_overflow_or_not_terminated".into(), json!({"fn": "llg_new_tokenizer", "cap": cap})));
        }
    }
    // EOS out of range must be refused
    {
        let bad = LlgTokenizerInit { tok_eos: v.n() as u32 + rng.below(3) as u32, ..copy_init(&init) };
        let mut e = G::new(64, 0x44u8, CANARY8);
        let p = unsafe { llg_new_tokenizer(&bad, e.ptr() as *mut _, 64) };
        if !p.is_null() {
            unsafe { llg_free_tokenizer(p) };
            return Err(("tokenizer_with_eos_out_of_range_accepted".into(), json!({})));
        }
        if !e.ok() {
            return Err(("error_string_overflow_or_not_terminated".into(), json!({"fn": "llg_new_tokenizer(eos)"})));
        }
    }

    // --- callback tokeniser (with and without the "assumes string" wrapper)
    for assumes in [false, true] {
        let st = Box::new(CbState { trie: v.trie().clone(), calls: Mutex::new(vec![]) });
        let cinit = LlgTokenizerInit {
            tokenize_assumes_string: assumes,
            tokenize_fn: Some(tokenize_cb),
            use_approximate_greedy_tokenize_fn: false,
            tokenize_user_data: &*st as *const CbState as *const c_void,
            ..copy_init(&init)
        };
        let p = unsafe { llg_new_tokenizer(&cinit, err.ptr() as *mut _, 128) };
        if p.is_null() {
            return Err(("llg_new_tokenizer_failed".into(), json!({"callback": true})));
        }
        let tc = Tok(p);
        let trie2 = v.trie().clone();
        for _ in 0..3 {
            st.calls.lock().unwrap().clear();
            if assumes {
                // the wrapper may split at invalid UTF-8; only the universal checks apply
                check_tokenize(ctx, rng, &tc, v, &|_s| None, false, "callback_assumes_string")?;
            } else {
                check_tokenize(ctx, rng, &tc, v, &|s| Some(cb_model(&trie2, s)), false, "callback")?;
            }
            // the library must never offer the callback less room than it then reads back
            let calls = st.calls.lock().unwrap().clone();
            ctx.rep.add("callback_calls_observed", calls.len() as u64);
            for w in calls.windows(2) {
                let (l0, cap0, need0) = w[0];
                let (l1, cap1, _) = w[1];
                if need0 > cap0 && l1 == l0 && cap1 < need0 {
                    return Err(("callback_retry_buffer_too_small".into(), json!({"first": [l0, cap0, need0], "second_cap": cap1})));
                }
            }
            if calls.iter().any(|&(_, cap, need)| need > cap) {
                ctx.rep.inc("callback_second_pass_observed");
            }
        }
        drop(tc);
        drop(st);
    }

    // --- v2: several EOS ids; truncated struct (older caller)
    let extra: Vec<u32> = vec![v.eos - 1, v.eos - 2];
    let full = std::mem::size_of::<LlgTokenizerInitV2>();
    let cut = std::mem::offset_of!(LlgTokenizerInitV2, tok_eos_extra);
    for (struct_size, expect_extra) in [(full, true), (cut, false), (full + 64, true)] {
        // a buffer larger than the struct so that an over-read of `struct_size` bytes would be visible to ASan only
        let mut raw = vec![0u8; full + 64];
        let v2 = LlgTokenizerInitV2 {
            struct_size,
            vocab_size: v.n() as u32,
            tok_eos: v.eos,
            token_lens: lens.as_ptr(),
            token_bytes: bytes.as_ptr(),
            tokenizer_json: std::ptr::null(),
            tokenize_assumes_string: false,
            tokenize_fn: None,
            use_approximate_greedy_tokenize_fn: true,
            tokenize_user_data: std::ptr::null(),
            slices: std::ptr::null(),
            tok_eos_extra: extra.as_ptr(),
            tok_eos_extra_count: extra.len() as u32,
        };
        unsafe { std::ptr::copy_nonoverlapping(&v2 as *const _ as *const u8, raw.as_mut_ptr(), full) };
        let p = unsafe { llg_new_tokenizer_v2(raw.as_ptr() as *const LlgTokenizerInitV2, err.ptr() as *mut _, 128) };
        if p.is_null() {
            return Err(("llg_new_tokenizer_v2_failed".into(), json!({"struct_size": struct_size})));
        }
        let t2 = Tok(p);
        ctx.rep.inc("v2_tokenizers");
        // observable: a grammar that accepts at once — which EOS ids does the stop mask contain?
        let mut ci: LlgConstraintInit = unsafe { std::mem::zeroed() };
        llg_constraint_init_set_defaults(&mut ci, t2.0);
        ci.log_stderr_level = 0;
        let lark = CString::new("start: \"a\"").unwrap();
        let kind = CString::new("lark").unwrap();
        let m = unsafe { llg_new_matcher(&ci, kind.as_ptr(), lark.as_ptr()) };
        let mm = unsafe { &mut *m };
        let ok = llg_matcher_consume_token(mm, b'a' as u32) == 0;
        let mut g = G::new(v.n().div_ceil(32), 0u32, CANARY32);
        let code = unsafe { llg_matcher_compute_mask_into(mm, g.ptr(), v.n().div_ceil(32) * 4) };
        let bit = |t: u32| g.data()[(t / 32) as usize] & (1 << (t % 32)) != 0;
        let res = if !ok || code != 0 {
            Err(("v2_matcher_unusable".into(), json!({"struct_size": struct_size})))
        } else if !g.ok() {
            Err(("write_outside_caller_buffer".into(), json!({"fn": "llg_matcher_compute_mask_into(v2)"})))
        } else if !bit(v.eos) || extra.iter().any(|&e| bit(e) != expect_extra) {
            Err(("v2_eos_set_differs".into(), json!({"struct_size": struct_size, "expect_extra": expect_extra, "primary": bit(v.eos), "extra": extra.iter().map(|&e| bit(e)).collect::<Vec<_>>()})))
        } else {
            Ok(())
        };
        unsafe { llg_free_matcher(m) };
        res?;
    }
    // v2 with struct_size too small / null
    {
        let small = std::mem::offset_of!(LlgTokenizerInitV2, token_lens) - 1;
        let raw: Vec<usize> = vec![small, 0, 0, 0];
        let mut e = G::new(32, 0x44u8, CANARY8);
        let p = unsafe { llg_new_tokenizer_v2(raw.as_ptr() as *const LlgTokenizerInitV2, e.ptr() as *mut _, 32) };
        let p2 = unsafe { llg_new_tokenizer_v2(std::ptr::null(), e.ptr() as *mut _, 32) };
        if !p.is_null() || !p2.is_null() {
            return Err(("v2_bad_struct_accepted".into(), json!({})));
        }
        if !e.ok() || !e.data().contains(&0) {
            return Err(("error_string_overflow_or_not_terminated".into(), json!({"fn": "llg_new_tokenizer_v2"})));
        }
    }
    Ok(())
}

fn copy_init(i: &LlgTokenizerInit) -> LlgTokenizerInit {
    LlgTokenizerInit {
        vocab_size: i.vocab_size,
        tok_eos: i.tok_eos,
        token_lens: i.token_lens,
        token_bytes: i.token_bytes,
        tokenizer_json: i.tokenizer_json,
        tokenize_assumes_string: i.tokenize_assumes_string,
        tokenize_fn: i.tokenize_fn,
        use_approximate_greedy_tokenize_fn: i.use_approximate_greedy_tokenize_fn,
        tokenize_user_data: i.tokenize_user_data,
        slices: i.slices,
    }
}

fn kind_str(g: &GCase) -> &'static str {
    match g.kind {
        GKind::Lark => "lark",
        GKind::Regex => "regex",
        GKind::Json => "json_schema",
    }
}

fn c_tok(v: &Vocab) -> Option<Tok> {
    let (lens, bytes) = words_flat(v);
    let init = LlgTokenizerInit {
        vocab_size: v.n() as u32,
        tok_eos: v.eos,
        token_lens: lens.as_ptr(),
        token_bytes: bytes.as_ptr(),
        tokenizer_json: std::ptr::null(),
        tokenize_assumes_string: false,
        tokenize_fn: None,
        use_approximate_greedy_tokenize_fn: true,
        tokenize_user_data: std::ptr::null(),
        slices: std::ptr::null(),
    };
    let p = unsafe { llg_new_tokenizer(&init, std::ptr::null_mut(), 0) };
    if p.is_null() {
        None
    } else {
        Some(Tok(p))
    }
}

fn words_of(m: &llguidance::toktrie::SimpleVob, n_words: usize) -> Vec<u32> {
    let mut w = m.as_slice().to_vec();
    w.resize(n_words.max(w.len()), 0);
    w.truncate(n_words);
    w
}

fn constraint_block(ctx: &mut Ctx, rng: &mut Rng, v: &Vocab, tok: &Tok, g: &GCase) -> V {
    let f = factory(v, &FactoryOpts::default()).map_err(|e| ("harness".to_string(), json!(e.to_string())))?;
    let mut init: LlgConstraintInit = unsafe { std::mem::zeroed() };
    llg_constraint_init_set_defaults(&mut init, tok.0);
    init.log_stderr_level = 0;
    init.limits.verbose_errors = false;
    let ctext = CString::new(g.text.clone()).unwrap();
    let ckind = CString::new(kind_str(g)).unwrap();
    let n_words = v.n().div_ceil(32);
    // typed constructors, the "any" constructor and the serialised-grammar constructor must agree
    let typed = match g.kind {
        GKind::Lark => llg_new_constraint_lark(&init, ctext.as_ptr()),
        GKind::Regex => llg_new_constraint_regex(&init, ctext.as_ptr()),
        GKind::Json => llg_new_constraint_json(&init, ctext.as_ptr()),
    };
    let any = llg_new_constraint_any(&init, ckind.as_ptr(), ctext.as_ptr());
    let ser = g.top().ok().and_then(|t| serde_json::to_string(&t).ok()).and_then(|s| CString::new(s).ok());
    let full = ser.as_ref().map(|s| llg_new_constraint(&init, s.as_ptr()));
    let mut cs: Vec<*mut LlgConstraint> = vec![typed, any];
    if let Some(p) = full {
        cs.push(p);
    }
    let rp = parser(&f, g);
    let res = (|| -> V {
        let errs: Vec<bool> = cs.iter().map(|&c| !llg_get_error(unsafe { &*c }).is_null()).collect();
        if errs.iter().any(|&e| e != rp.is_err()) {
            return Err(("constructor_error_status_differs".into(), json!({"c_errors": errs, "rust_error": rp.is_err()})));
        }
        // message buffers of llg_validate_grammar
        for cap in [1usize, 2, 5, 33, 300] {
            let mut mb = G::new(cap, 0x21u8, CANARY8);
            let code = unsafe { llg_validate_grammar(&init, ckind.as_ptr(), ctext.as_ptr(), mb.ptr() as *mut _, cap) };
            ctx.rep.inc("error_buffers_checked");
            if !mb.ok() || !mb.data().contains(&0) {
                return Err(("error_string_overflow_or_not_terminated".into(), json!({"fn": "llg_validate_grammar", "cap": cap})));
            }
            if (code == -1) != rp.is_err() {
                // validation compiles the grammar only; creating a parser may still fail on the initial state
                if !(code != -1 && rp.is_err()) {
                    return Err(("validate_grammar_status_differs".into(), json!({"code": code, "rust_error": rp.is_err()})));
                }
                ctx.rep.inc("validate_grammar_ok_but_parser_refused");
            }
            if code == 0 && mb.data()[0] != 0 {
                return Err(("validate_grammar_ok_with_message".into(), json!({"cap": cap})));
            }
        }
        let Ok(rp) = rp else {
            ctx.rep.inc("compile_errors");
            return Ok(());
        };
        let mut rc = Constraint::new(rp);
        for &c in &cs {
            let t = llg_get_temperature(unsafe { &*c });
            if t != rc.temperature {
                return Err(("temperature_differs".into(), json!({"c": t, "rust": rc.temperature})));
            }
        }
        for _step in 0..6 {
            let rm = rc.compute_mask().map(|r| (r.sample_mask.clone(), r.is_stop()));
            let mut cm: Vec<(i32, bool, Option<Vec<u32>>)> = vec![];
            for &c in &cs {
                let mut r: LlgMaskResult = unsafe { std::mem::zeroed() };
                let code = llg_compute_mask(unsafe { &mut *c }, &mut r);
                let m = if code == 0 && !r.sample_mask.is_null() { Some(unsafe { std::slice::from_raw_parts(r.sample_mask, n_words) }.to_vec()) } else { None };
                cm.push((code, r.is_stop, m));
            }
            ctx.rep.inc("constructor_mask_comparisons");
            let Ok((rmask, rstop)) = rm else {
                if cm.iter().any(|x| x.0 == 0) {
                    return Err(("compute_mask_status_differs".into(), json!({})));
                }
                return Ok(());
            };
            for x in &cm {
                if x.0 != 0 || x.1 != rstop || x.2 != rmask.as_ref().map(|m| words_of(m, n_words)) {
                    return Err(("constructors_disagree_on_mask".into(), json!({"codes": cm.iter().map(|x| x.0).collect::<Vec<_>>()})));
                }
            }
            if rstop {
                break;
            }
            let Some(m) = rmask else { break };
            let Some(t) = walker::choose(rng, &m, v, walker::Policy::Uniform) else { break };
            let rr = rc.commit_token(Some(t));
            for &c in &cs {
                let mut cr: LlgCommitResult = unsafe { std::mem::zeroed() };
                let code = llg_commit_token(unsafe { &mut *c }, t, &mut cr);
                if (code != 0) != rr.is_err() {
                    return Err(("commit_status_differs".into(), json!({"token": t})));
                }
            }
            if rr.is_err() {
                break;
            }
        }
        Ok(())
    })();
    for c in cs {
        unsafe { llg_free_constraint(c) };
    }
    res
}

fn matcher_block(ctx: &mut Ctx, rng: &mut Rng, v: &Vocab, tok: &Tok, g: &GCase) -> V {
    let f = factory(v, &FactoryOpts::default()).map_err(|e| ("harness".to_string(), json!(e.to_string())))?;
    let mut init: LlgConstraintInit = unsafe { std::mem::zeroed() };
    llg_constraint_init_set_defaults(&mut init, tok.0);
    init.log_stderr_level = 0;
    init.limits.verbose_errors = false;
    let ctext = CString::new(g.text.clone()).unwrap();
    let ckind = CString::new(kind_str(g)).unwrap();
    let n_words = v.n().div_ceil(32);
    let cm = unsafe { llg_new_matcher(&init, ckind.as_ptr(), ctext.as_ptr()) };
    let mut rm = match matcher(&f, g) {
        Ok(m) => m,
        Err(e) => Matcher::new(Err(e)),
    };
    let mut clones: Vec<(*mut LlgMatcher, Matcher)> = vec![];
    let res = (|| -> V {
        let m = unsafe { &mut *cm };
        let e1 = llg_matcher_get_error(m);
        if e1.is_null() == rm.is_error() {
            return Err(("matcher_get_error_presence_differs".into(), json!({"rust_error": rm.is_error()})));
        }
        if rm.is_error() {
            // message is a C string that stays where it is
            let e2 = llg_matcher_get_error(m);
            let s = unsafe { CStr::from_ptr(e1) };
            if e1 != e2 || s.to_bytes().is_empty() {
                return Err(("matcher_error_pointer_not_stable".into(), json!({})));
            }
            ctx.rep.inc("compile_errors");
            return Ok(());
        }
        let mask_eq = |cmx: &mut LlgMatcher, rmx: &mut Matcher, what: &str, hist: &Vec<u32>| -> V {
            let mut gb = G::new(n_words, 0x5555_5555u32, CANARY32);
            let code = unsafe { llg_matcher_compute_mask_into(cmx, gb.ptr(), n_words * 4) };
            let want = rmx.compute_mask_or_eos();
            if !gb.ok() {
                return Err(("write_outside_caller_buffer".into(), json!({"at": what})));
            }
            if (code != 0) != want.is_err() {
                return Err(("matcher_mask_status_differs".into(), json!({"at": what, "c": code, "rust_error": want.is_err(), "history": hist})));
            }
            if let Ok(w) = want {
                if gb.data() != &words_of(&w, n_words)[..] {
                    return Err(("matcher_mask_differs_from_rust_mask".into(), json!({"at": what, "history": hist})));
                }
            }
            Ok(())
        };
        let mut hist: Vec<u32> = vec![];
        let steps = ctx.pick(10, 24);
        for step in 0..steps {
            mask_eq(m, &mut rm, "main", &hist)?;
            ctx.rep.inc("aux_mask_comparisons");
            if rm.is_stopped() || rm.is_error() {
                break;
            }
            match rng.below(10) {
                0 | 1 if clones.len() < 3 => {
                    // clone both sides; the clones are checked after the originals moved on
                    let cc = llg_clone_matcher(m);
                    clones.push((cc, rm.deep_clone()));
                    ctx.rep.inc("matcher_clones");
                }
                2 => {
                    let cr = llg_matcher_reset(m);
                    let rr = rm.reset();
                    ctx.rep.inc("reset_comparisons");
                    if (cr != 0) != rr.is_err() {
                        return Err(("reset_status_differs".into(), json!({"c": cr, "rust_err": rr.is_err(), "history": hist})));
                    }
                    if rr.is_err() {
                        break;
                    }
                    hist.clear();
                }
                _ => {
                    // a batch: tokens found valid on a scratch clone, sometimes followed by a bad one
                    let mut scratch = rm.deep_clone();
                    let mut seq = vec![];
                    for _ in 0..1 + rng.below(4) {
                        let Ok(mk) = scratch.compute_mask() else { break };
                        let pol = walker::policy_for_step(rng, step, steps);
                        let Some(t) = walker::choose(rng, &mk, v, pol) else { break };
                        if scratch.consume_token(t).is_err() {
                            break;
                        }
                        seq.push(t);
                        if scratch.is_stopped() {
                            break;
                        }
                    }
                    if rng.chance(1, 8) {
                        seq.push(if rng.chance(1, 2) { v.n() as u32 + 1 } else { rng.below(v.n()) as u32 });
                    }
                    let cr = unsafe { llg_matcher_consume_tokens(m, seq.as_ptr(), seq.len()) };
                    let rr = rm.consume_tokens(&seq);
                    ctx.rep.inc("consume_tokens_comparisons");
                    if (cr != 0) != rr.is_err() {
                        return Err(("consume_tokens_status_differs".into(), json!({"seq": seq, "c": cr, "rust_err": rr.is_err(), "history": hist})));
                    }
                    if llg_matcher_is_error(m) != rm.is_error() || llg_matcher_get_error(m).is_null() == rm.is_error() {
                        return Err(("error_state_differs_after_consume_tokens".into(), json!({"seq": seq, "history": hist})));
                    }
                    if rr.is_err() {
                        break;
                    }
                    hist.extend(seq);
                }
            }
        }
        // the clones must still be where they were cloned
        for (i, (cc, rcl)) in clones.iter_mut().enumerate() {
            let c = unsafe { &mut **cc };
            for k in 0..3 {
                mask_eq(c, rcl, "clone", &vec![i as u32, k])?;
                ctx.rep.inc("clone_mask_comparisons");
                if rcl.is_stopped() || rcl.is_error() {
                    break;
                }
                let Ok(mk) = rcl.compute_mask() else { break };
                let Some(t) = walker::choose(rng, &mk, v, walker::Policy::Uniform) else { break };
                let a = llg_matcher_consume_token(c, t);
                let b = rcl.consume_token(t);
                if (a != 0) != b.is_err() {
                    return Err(("clone_consume_status_differs".into(), json!({"token": t})));
                }
                if b.is_err() {
                    break;
                }
            }
        }
        if hist.len() >= 2 {
            ctx.rep.nontrivial(g.hash() ^ fnv(&hist.iter().flat_map(|t| t.to_le_bytes()).collect::<Vec<u8>>()) ^ 0xA11);
        }
        Ok(())
    })();
    for (c, _) in clones {
        unsafe { llg_free_matcher(c) };
    }
    unsafe { llg_free_matcher(cm) };
    res
}

const STOP_RX: &[&str] = &["\\n\\n", "END|STOP", "[.!?] ", "</?done>", "é+", "a{3}", "x[0-9]+y"];

fn stop_block(ctx: &mut Ctx, rng: &mut Rng, v: &Vocab, tok: &Tok) -> V {
    let stop_tokens: Vec<u32> = (0..rng.below(3)).map(|_| if rng.chance(1, 2) { *rng.pick(&v.specials) } else { rng.below(v.n()) as u32 }).collect();
    let rx: Option<String> = if rng.chance(3, 4) { Some(rng.pick(STOP_RX).to_string()) } else { None };
    let crx = rx.as_ref().map(|s| CString::new(s.clone()).unwrap());
    let mut e = G::new(96, 0x44u8, CANARY8);
    let sc = unsafe {
        llg_new_stop_controller(&*tok.0, if stop_tokens.is_empty() { std::ptr::null() } else { stop_tokens.as_ptr() }, stop_tokens.len(), crx.as_ref().map_or(std::ptr::null(), |c| c.as_ptr()), e.ptr() as *mut _, 96)
    };
    let rs = StopController::new(v.env.clone(), stop_tokens.clone(), rx.clone(), vec![]);
    if !e.ok() {
        return Err(("error_string_overflow_or_not_terminated".into(), json!({"fn": "llg_new_stop_controller"})));
    }
    if sc.is_null() != rs.is_err() {
        if !sc.is_null() {
            unsafe { llg_free_stop_controller(sc) };
        }
        return Err(("stop_controller_creation_differs".into(), json!({"c_null": sc.is_null(), "rust_err": rs.is_err(), "rx": rx})));
    }
    let Ok(mut rs) = rs else { return Ok(()) };
    // invalid regex must be refused with a message inside the buffer
    {
        let bad = CString::new("(unclosed").unwrap();
        let mut e2 = G::new(20, 0x44u8, CANARY8);
        let p = unsafe { llg_new_stop_controller(&*tok.0, std::ptr::null(), 0, bad.as_ptr(), e2.ptr() as *mut _, 20) };
        if !p.is_null() {
            unsafe { llg_free_stop_controller(p) };
            return Err(("stop_controller_bad_regex_accepted".into(), json!({})));
        }
        if !e2.ok() || !e2.data().contains(&0) {
            return Err(("error_string_overflow_or_not_terminated".into(), json!({"fn": "llg_new_stop_controller(bad rx)"})));
        }
    }
    let mut all: Vec<(*mut LlgStopController, StopController)> = vec![];
    let mut text = sample_text(rng, false);
    if let Some(r) = &rx {
        // make a hit likely
        let hit: &[u8] = match r.as_str() {
            "\\n\\n" => b"\n\n",
            "END|STOP" => b"STOP",
            "[.!?] " => b"! ",
            "</?done>" => b"</done>",
            "é+" => "éé".as_bytes(),
            "a{3}" => b"aaa",
            _ => b"x42y",
        };
        if rng.chance(2, 3) {
            let at = rng.below(text.len() + 1);
            let tail = text.split_off(at);
            text.extend_from_slice(hit);
            text.extend(tail);
        }
    }
    let mut toks = v.trie().greedy_tokenize(&text);
    if !stop_tokens.is_empty() && rng.chance(1, 2) {
        let at = rng.below(toks.len() + 1);
        toks.insert(at, stop_tokens[0]);
    }
    let res = (|| -> V {
        let mut cur = sc;
        for (i, &t) in toks.iter().enumerate() {
            let mut out_len = usize::MAX;
            let mut stopped = false;
            let p = llg_stop_commit_token(unsafe { &mut *cur }, t, &mut out_len, &mut stopped);
            let want = rs.commit_token(t);
            ctx.rep.inc("stop_commits_compared");
            if p.is_null() || out_len == usize::MAX {
                return Err(("stop_commit_returned_nothing".into(), json!({"step": i, "token": t})));
            }
            // the result may contain NUL bytes (a vocabulary has a token for byte 0): trust the length, check the terminator
            let got = unsafe { std::slice::from_raw_parts(p as *const u8, out_len) };
            if unsafe { *(p as *const u8).add(out_len) } != 0 {
                return Err(("stop_commit_output_not_terminated".into(), json!({"step": i, "token": t})));
            }
            if got != want.as_bytes() || out_len != want.len() || stopped != rs.is_stopped() {
                return Err(("stop_controller_output_differs".into(), json!({"step": i, "token": t, "c": crate::report::bytes_dbg(got), "rust": want, "c_len": out_len, "c_stopped": stopped, "rust_stopped": rs.is_stopped(), "rx": rx, "stop_tokens": stop_tokens})));
            }
            if stopped {
                ctx.rep.inc("stop_controller_stops");
            }
            if rng.chance(1, 6) && all.len() < 2 {
                // continue on a clone, keep the original to be freed later
                let c2 = llg_clone_stop_controller(unsafe { &*cur });
                all.push((cur, rs.clone()));
                cur = c2;
                ctx.rep.inc("stop_controller_clones");
            }
        }
        all.push((cur, rs.clone()));
        Ok(())
    })();
    if all.is_empty() {
        unsafe { llg_free_stop_controller(sc) };
    }
    for (p, _) in all {
        unsafe { llg_free_stop_controller(p) };
    }
    res
}

fn grammar_pick(rng: &mut Rng, idx: u64) -> GCase {
    loop {
        let g = if rng.chance(1, 2) {
            let i = rng.below(pool::n_corpus() as usize) as u64;
            pool::grammar(rng, i)
        } else {
            pool::grammar(rng, 1_000_000 + idx)
        };
        if !g.has_tag("special_token_ref") && !g.text.contains('\0') {
            return g;
        }
    }
}

pub fn run_case(ctx: &mut Ctx, idx: u64) {
    let mut rng = ctx.case_rng(idx);
    let sizes = [259usize, 288, 320, 511, 600];
    let n = sizes[(idx as usize / 5) % sizes.len()];
    let v = make_vocab(&mut rng, n);
    let g = grammar_pick(&mut rng, idx);
    let tags = g.tags.clone();
    ctx.rep.inc("aux_cases");
    let mut fail = |ctx: &mut Ctx, block: &str, k: String, d: serde_json::Value| {
        if k == "harness" {
            ctx.rep.inconclusive("aux_harness");
            return;
        }
        let rp = ctx.replay(idx);
        ctx.rep.violation(&k, &tags, json!({"block": block, "n_vocab": n, "grammar": g.text, "grammar_kind": kind_str(&g), "oracle": d}), rp);
    };
    if let Err((k, d)) = tokenizer_block(ctx, &mut rng, &v) {
        fail(ctx, "tokenizer", k, d);
        return;
    }
    let Some(tok) = c_tok(&v) else {
        fail(ctx, "tokenizer", "llg_new_tokenizer_failed".into(), json!({}));
        return;
    };
    if let Err((k, d)) = constraint_block(ctx, &mut rng, &v, &tok, &g) {
        fail(ctx, "constructors", k, d);
        return;
    }
    if let Err((k, d)) = matcher_block(ctx, &mut rng, &v, &tok, &g) {
        fail(ctx, "matcher_aux", k, d);
        return;
    }
    for _ in 0..3 {
        if let Err((k, d)) = stop_block(ctx, &mut rng, &v, &tok) {
            fail(ctx, "stop_controller", k, d);
            return;
        }
    }
}
