//! C02: acceptance depends on the bytes, not on how they are split into tokens.

use crate::ctx::Ctx;
use crate::engine::*;
use crate::pool::{self, VKind};
use crate::report::bytes_dbg;
use crate::rng::{fnv, Rng};
use crate::vocab::{self, Vocab};
use crate::walker;
use llguidance::{Matcher, ParserFactory};
use serde_json::json;

fn byte_engine(f1: &ParserFactory, g: &GCase, bytes: &[u8]) -> Result<Matcher, usize> {
    let mut m = matcher(f1, g).map_err(|_| 0usize)?;
    for (i, &b) in bytes.iter().enumerate() {
        if m.consume_token(b as u32).is_err() {
            return Err(i);
        }
    }
    Ok(m)
}

/// random segmentation of `bytes` into tokens of `v` (different from greedy in general)
fn random_segmentation(rng: &mut Rng, v: &Vocab, bytes: &[u8]) -> Option<Vec<u32>> {
    let mut out = vec![];
    let mut i = 0;
    while i < bytes.len() {
        let cands = v.trie().all_prefixes(&bytes[i..]);
        if cands.is_empty() {
            return None;
        }
        let t = if rng.chance(1, 3) { cands[0] } else { *rng.pick(&cands) };
        i += v.words[t as usize].len();
        out.push(t);
    }
    Some(out)
}

fn run_case(ctx: &mut Ctx, idx: u64) {
    let mut rng = ctx.case_rng(idx);
    let g = if rng.chance(1, 2) {
        let i = rng.below(pool::n_corpus() as usize) as u64;
        pool::grammar(&mut rng, i)
    } else {
        pool::grammar(&mut rng, 1_000_000 + idx)
    };
    if g.has_tag("special_token_ref") {
        return; // special tokens are compared within one vocabulary only (C19)
    }
    let vk = match rng.below(8) {
        0..=3 => VKind::Vsyn,
        4 => VKind::VsynC,
        5 => VKind::Bpe(0),
        6 => VKind::Bpe(1),
        _ => VKind::Bpe(if ctx.thorough { 2 } else { 0 }),
    };
    let v = pool::make_vocab(&mut rng, &g, vk);
    let v1 = vocab::v1(false);
    let Ok(f) = factory(&v, &FactoryOpts::default()) else { return };
    let Ok(f1) = factory_noslice(&v1) else { return };
    let Ok(mut m) = matcher(&f, &g) else {
        ctx.rep.inc("compile_errors");
        return;
    };
    if m.is_error() {
        ctx.rep.inc("compile_errors");
        return;
    }
    ctx.rep.inc("cases");
    let steps = ctx.pick(16, 36);
    let mut hist: Vec<u32> = vec![];
    let mut bytes: Vec<u8> = vec![];
    macro_rules! viol {
        ($kind:expr, $detail:expr) => {{
            let d = json!({"case": pool::describe(ctx, &g, &v), "history": hist, "history_bytes": bytes_dbg(&bytes), "oracle": $detail});
            let rp = ctx.replay(idx);
            ctx.rep.violation($kind, &g.tags, d, rp);
            return;
        }};
    }
    for step in 0..steps {
        if m.is_stopped() {
            break;
        }
        // E1 fed with the same bytes
        let mut e1 = match byte_engine(&f1, &g, &bytes) {
            Ok(e) => e,
            Err(pos) => {
                // a byte refused because of a resource limit (item / row limits are hit earlier byte by byte) is not a verdict
                let pre: Vec<u32> = bytes[..pos].iter().map(|&b| b as u32).collect();
                if resource_stop_on_replay(&f1, &g, &pre) || crate::tp::accepted_with_relaxed_limits(&v1, Some(vec![]), &g, &pre, bytes[pos] as u32) {
                    ctx.rep.inconclusive("resource_stop");
                    return;
                }
                viol!("bytes_accepted_as_tokens_rejected_as_bytes", json!({"rejected_at_byte": pos}))
            }
        };
        ctx.rep.inc("states");
        let (sa, sb) = (m.is_stopped(), e1.is_stopped());
        if sa != sb {
            viol!("stop_differs", json!({"tokens": format!("{:?}", m.stop_reason()), "bytes": format!("{:?}", e1.stop_reason())}));
        }
        let (a, b) = (m.is_accepting().ok(), e1.is_accepting().ok());
        if a != b {
            viol!("accepting_differs", json!({"tokens": a, "bytes": b}));
        }
        let mask_v = m.compute_mask().ok();
        let mask_1 = e1.compute_mask().ok();
        let (Some(mask_v), Some(mask_1)) = (mask_v, mask_1) else {
            if is_resource_stop(&m) || is_resource_stop(&e1) {
                ctx.rep.inconclusive("resource_stop");
            }
            break;
        };
        // acceptable(t) for E_V: the mask when nothing narrows it, otherwise validate
        let narrowed = v.canonical;
        let mut mv = m.deep_clone();
        let mut e1v = e1.deep_clone();
        let mut multi_seen = false;
        for t in 0..v.n() as u32 {
            let w = &v.words[t as usize];
            if w.is_empty() || w.contains(&0xFF) {
                continue;
            }
            let acc_v = if narrowed { mv.validate_tokens(&[t]).map(|k| k == 1).unwrap_or(false) } else { mask_v.is_allowed(t) };
            let byte_toks: Vec<u32> = w.iter().map(|&b| b as u32).collect();
            let acc_1 = if w.len() == 1 { mask_1.is_allowed(w[0] as u32) } else { e1v.validate_tokens(&byte_toks).map(|k| k == w.len()).unwrap_or(false) };
            ctx.rep.inc("token_checks");
            if acc_v != acc_1 {
                viol!("token_vs_bytes_differ", json!({"token": t, "token_bytes": bytes_dbg(w), "allowed_as_token": acc_v, "allowed_byte_by_byte": acc_1, "narrowed_env": narrowed}));
            }
            if acc_v && w.len() >= 2 {
                multi_seen = true;
            }
        }
        if multi_seen {
            ctx.rep.nontrivial(g.hash() ^ fnv(&bytes).rotate_left(5) ^ fnv(v.name.as_bytes()));
        }
        // a second, different segmentation of the same bytes reaches the same mask
        if !hist.is_empty() && rng.chance(1, 2) {
            if let Some(seg) = random_segmentation(&mut rng, &v, &bytes) {
                if seg != hist {
                    ctx.rep.inc("resegmentations");
                    let Ok(mut m2) = matcher(&f, &g) else { break };
                    for (i, &t) in seg.iter().enumerate() {
                        if m2.consume_token(t).is_err() {
                            viol!("other_segmentation_rejected", json!({"segmentation": seg, "rejected_at": i}));
                        }
                    }
                    let (s1, s2) = (m.is_stopped(), m2.is_stopped());
                    if s1 != s2 {
                        viol!("other_segmentation_stop_differs", json!({"segmentation": seg}));
                    }
                    if !narrowed {
                        if let Ok(mask2) = m2.compute_mask() {
                            if !mask_eq(&mask_v, &mask2, v.n()) {
                                viol!("other_segmentation_mask_differs", json!({"segmentation": seg, "diff": mask_diff(&mask_v, &mask2, v.n())}));
                            }
                        }
                    } else if m.is_accepting().ok() != m2.is_accepting().ok() {
                        viol!("other_segmentation_accepting_differs", json!({"segmentation": seg}));
                    }
                }
            }
        }
        let pol = walker::policy_for_step(&mut rng, step, steps);
        let pol = if step < 4 { walker::Policy::Extending } else { pol };
        let Some(t) = walker::choose(&mut rng, &mask_v, &v, pol) else { break };
        if v.words[t as usize].is_empty() || v.words[t as usize].contains(&0xFF) {
            break; // EOS / special: end of the byte-comparable part
        }
        if m.consume_token(t).is_err() {
            break;
        }
        hist.push(t);
        bytes.extend_from_slice(&v.words[t as usize]);
    }
    if rng.chance(1, 30) {
        ctx.rep.sample(json!({"grammar": g.name, "vocab": v.name, "history": hist, "history_bytes": bytes_dbg(&bytes)}));
    }
}

pub fn run(ctx: &mut Ctx) {
    let n_cases = ctx.pick(10000, 200000);
    for idx in 0..n_cases {
        if !ctx.mine(idx) {
            continue;
        }
        if ctx.out_of_time() {
            break;
        }
        run_case(ctx, idx);
    }
}
