//! C01: mask == set of tokens validate/commit accept; validate_tokens(seq) == committable
//! prefix length; EOS in mask iff accepting.

use crate::ctx::Ctx;
use crate::engine::*;
use crate::pool;
use crate::report::bytes_dbg;
use crate::rng::{fnv, Rng};
use crate::vocab::Vocab;
use crate::walker::{self, Policy};
use llguidance::Matcher;
use serde_json::json;

pub struct StateCheck {
    pub full_vloop: bool,
    pub sample_tokens: usize,
}

/// returns Err(kind, detail) on the first oracle violation in this state
pub fn check_state(
    rng: &mut Rng,
    m: &mut Matcher,
    v: &Vocab,
    forcing_env: bool,
    sc: &StateCheck,
    rep: &mut crate::report::Report,
    hist_hash: u64,
    ghash: u64,
    eos_in_ranges: bool,
) -> Result<Option<llguidance::toktrie::SimpleVob>, (String, serde_json::Value)> {
    let n = v.n();
    // ff tokens on a deep clone, *before* the mask, as a user would see them
    let ff = if forcing_env { m.deep_clone().compute_ff_tokens() } else { vec![] };
    let mask = match m.compute_mask() {
        Ok(x) => x,
        Err(_) => return Ok(None),
    };
    let acc = match m.is_accepting() {
        Ok(a) => a,
        Err(_) => return Ok(None),
    };
    rep.inc("states");
    // no bit at or above vocab size
    for t in n..mask.len() {
        if mask.is_allowed(t as u32) {
            return Err(("mask_bit_beyond_vocab".into(), json!({"bit": t})));
        }
    }
    // EOS iff accepting
    let eos_in = mask.is_allowed(v.eos);
    if eos_in != acc && !eos_in_ranges {
        return Err(("eos_vs_accepting".into(), json!({"eos_in_mask": eos_in, "accepting": acc})));
    }
    let forced_singleton = forcing_env && !ff.is_empty();
    if forced_singleton {
        rep.inc("states_forced_singleton");
        let l = mask_list(&mask, n);
        if l != vec![ff[0]] {
            return Err(("forced_mask_not_singleton".into(), json!({"mask": l.iter().take(10).collect::<Vec<_>>(), "ff": ff})));
        }
    }
    // token set to examine
    let mut toks: Vec<u32> = if sc.full_vloop || n <= sc.sample_tokens {
        (0..n as u32).collect()
    } else {
        let mut t: Vec<u32> = mask_list(&mask, n);
        if t.len() > sc.sample_tokens {
            rng.shuffle(&mut t);
            t.truncate(sc.sample_tokens);
        }
        for _ in 0..sc.sample_tokens {
            t.push(rng.below(n) as u32);
        }
        t.sort();
        t.dedup();
        t
    };
    if toks.len() == n {
        rep.inc("states_full_vloop");
    }
    toks.push(n as u32 - 1);
    toks.dedup();
    let mut mv = m.deep_clone();
    let mut n_in = 0;
    let mut multi = false;
    for &t in &toks {
        let in_mask = mask.is_allowed(t);
        let val = match mv.validate_tokens(&[t]) {
            Ok(k) => k == 1,
            Err(_) => {
                return Err(("validate_error".into(), json!({"token": t})));
            }
        };
        let mut c = m.clone();
        let com = c.consume_token(t).is_ok();
        rep.inc("token_checks");
        if in_mask {
            n_in += 1;
            if v.words[t as usize].len() >= 2 && v.words[t as usize][0] != 0xFF {
                multi = true;
            }
        }
        let bad = if forced_singleton {
            // mask may be narrower than the accepted set, never wider
            (in_mask && !(val && com)) || val != com
        } else {
            in_mask != val || in_mask != com
        };
        if bad {
            return Err((
                "mask_validate_commit_disagree".into(),
                json!({"token": t, "token_bytes": bytes_dbg(&v.words[t as usize]), "in_mask": in_mask, "validate": val, "commit": com, "forced_singleton": forced_singleton}),
            ));
        }
    }
    let msize = mask_list(&mask, n).len();
    if msize >= 2 && msize < n && (multi || v.words.iter().all(|w| w.len() <= 1 || w[0] == 0xFF)) && n_in > 0 {
        rep.nontrivial(ghash ^ hist_hash.rotate_left(17) ^ fnv(v.name.as_bytes()));
    }
    Ok(Some(mask))
}

/// validate_tokens(seq) == number of tokens a clone commits one by one
fn check_validate_seq(rng: &mut Rng, m: &mut Matcher, v: &Vocab, rep: &mut crate::report::Report) -> Result<(), (String, serde_json::Value)> {
    let n = v.n();
    // build a sequence: valid continuation, possibly corrupted / random / EOS inside
    let mut w = m.deep_clone();
    let wl = 1 + rng.below(6);
    let (mut seq, _) = walker::walk(rng, &mut w, v, wl);
    match rng.below(4) {
        0 => {}
        1 if !seq.is_empty() => {
            let i = rng.below(seq.len());
            seq[i] = rng.below(n) as u32;
        }
        2 => {
            let i = rng.below(seq.len() + 1);
            seq.insert(i, v.eos);
        }
        _ => {
            let k = 1 + rng.below(4);
            seq = (0..k).map(|_| rng.below(n) as u32).collect();
        }
    }
    if seq.is_empty() {
        return Ok(());
    }
    let got = match m.deep_clone().validate_tokens(&seq) {
        Ok(k) => k,
        Err(_) => return Err(("validate_seq_error".into(), json!({"seq": seq}))),
    };
    let mut c = m.deep_clone();
    let mut want = 0;
    let mut hit_stop = false;
    for &t in &seq {
        // The matcher latches a normal stop as soon as the text is complete and cannot be
        // extended; in that state the only acceptable token is EOS (compute_mask_or_eos says so),
        // so an EOS right after the automatic stop counts as committable and ends the sequence.
        if c.is_stopped() {
            hit_stop = true;
            if c.stop_reason() == llguidance::api::StopReason::NoExtension && t == v.eos {
                want += 1;
            }
            break;
        }
        if c.consume_token(t).is_ok() {
            want += 1;
        } else {
            break;
        }
    }
    rep.inc("validate_seq_checks");
    if got != want {
        return Err(("validate_seq_len".into(), json!({"seq": seq, "validate_tokens": got, "committable": want})));
    }
    // the committing counterpart: try_consume_tokens takes exactly the committable prefix and ends in the state that
    // committing that prefix one by one ends in (compared while no automatic stop intervened)
    if !hit_stop {
        let mut d = m.deep_clone();
        match d.try_consume_tokens(&seq) {
            Ok(k2) => {
                rep.inc("try_consume_checks");
                if k2 != want {
                    return Err(("try_consume_tokens_len".into(), json!({"seq": seq, "try_consume_tokens": k2, "committable": want})));
                }
                // (the one-by-one clone above is in the error state once a token was refused: rebuild the reference
                // from the accepted prefix only)
                let mut c = m.deep_clone();
                for &t in &seq[..want] {
                    if c.consume_token(t).is_err() {
                        return Err(("committable_prefix_not_committable_twice".into(), json!({"seq": seq, "committable": want})));
                    }
                }
                if d.is_stopped() != c.is_stopped() {
                    return Err(("try_consume_tokens_stop_differs".into(), json!({"seq": seq, "taken": k2, "batch_stopped": d.is_stopped(), "one_by_one_stopped": c.is_stopped()})));
                }
                if !d.is_stopped() {
                    let (a, b) = (d.compute_mask(), c.compute_mask());
                    match (a, b) {
                        (Ok(a), Ok(b)) => {
                            if !mask_eq(&a, &b, n) {
                                return Err(("try_consume_tokens_state_differs".into(), json!({"seq": seq, "taken": k2, "diff": mask_diff(&a, &b, n).into_iter().take(8).collect::<Vec<_>>()})));
                            }
                        }
                        (Err(_), Err(_)) => {}
                        _ => return Err(("try_consume_tokens_state_differs".into(), json!({"seq": seq, "taken": k2, "one_mask_failed": true}))),
                    }
                }
            }
            Err(_) => rep.inc("try_consume_errors"),
        }
    }
    Ok(())
}

pub fn run_case(ctx: &mut Ctx, idx: u64) {
    let mut rng = ctx.case_rng(idx);
    let g = pool::grammar(&mut rng, idx % 1_000_000);
    let vk = pool::pick_vkind(&mut rng, ctx.thorough);
    let v = pool::make_vocab(&mut rng, &g, vk);
    let f = match factory(&v, &FactoryOpts::default()) {
        Ok(f) => f,
        Err(e) => {
            ctx.rep.note(&format!("factory error: {e}"));
            return;
        }
    };
    let mut m = match matcher(&f, &g) {
        Ok(m) => m,
        Err(_) => {
            ctx.rep.inc("compile_errors");
            return;
        }
    };
    if m.is_error() {
        ctx.rep.inc("compile_errors");
        return;
    }
    ctx.rep.inc("cases");
    let forcing_env = v.canonical;
    let sc = StateCheck { full_vloop: v.n() <= ctx.pick(1200, 9000), sample_tokens: ctx.pick(300, 1500) };
    let steps = ctx.pick(18, 40);
    let mut hist: Vec<u32> = vec![];
    let ghash = g.hash();
    let tags = g.tags.clone();
    let mut ops: Vec<String> = vec![];
    for step in 0..steps {
        if m.is_stopped() {
            break;
        }
        let hh = fnv(&hist.iter().flat_map(|t| t.to_le_bytes()).collect::<Vec<u8>>());
        let mask = match check_state(&mut rng, &mut m, &v, forcing_env, &sc, &mut ctx.rep, hh, ghash, g.has_tag("tokrange_eos")) {
            Ok(Some(mask)) => mask,
            Ok(None) => {
                if is_resource_stop(&m) {
                    ctx.rep.inconclusive("resource_stop");
                }
                break;
            }
            Err((kind, detail)) => {
                // a masked token refused by commit because of the row-size limit is a resource stop
                if kind == "mask_validate_commit_disagree" && detail["in_mask"] == json!(true) && detail["commit"] == json!(false) {
                    let t = detail["token"].as_u64().unwrap_or(0) as u32;
                    if crate::tp::accepted_with_relaxed_limits(&v, None, &g, &hist, t) {
                        ctx.rep.inconclusive("resource_stop");
                        return;
                    }
                }
                let d = json!({"case": pool::describe(ctx, &g, &v), "history": hist, "history_bytes": bytes_dbg(&v.trie().decode_raw(&hist)), "ops": ops, "oracle": detail});
                let rp = ctx.replay(idx);
                ctx.rep.violation(&kind, &tags, d, rp);
                return;
            }
        };
        if rng.chance(1, 3) && !g.has_tag("tokrange_eos") {
            if let Err((kind, detail)) = check_validate_seq(&mut rng, &mut m, &v, &mut ctx.rep) {
                let d = json!({"case": pool::describe(ctx, &g, &v), "history": hist, "ops": ops, "oracle": detail});
                let rp = ctx.replay(idx);
                ctx.rep.violation(&kind, &tags, d, rp);
                return;
            }
        }
        // occasionally roll back and take a different path (histories with rollbacks)
        if !hist.is_empty() && rng.chance(1, 8) {
            let k = 1 + rng.below(hist.len().min(3));
            if m.rollback(k).is_ok() {
                hist.truncate(hist.len() - k);
                ops.push(format!("rollback {k}"));
                ctx.rep.inc("rollbacks_in_history");
                continue;
            } else {
                break;
            }
        }
        let pol = walker::policy_for_step(&mut rng, step, steps);
        let Some(t) = walker::choose(&mut rng, &mask, &v, if step < 3 { Policy::Extending } else { pol }) else { break };
        if m.consume_token(t).is_err() {
            if crate::tp::accepted_with_relaxed_limits(&v, None, &g, &hist, t) {
                ctx.rep.inconclusive("resource_stop");
                return;
            }
            // already covered by the V-loop when t was examined; record anyway
            let d = json!({"case": pool::describe(ctx, &g, &v), "history": hist, "token": t});
            let rp = ctx.replay(idx);
            ctx.rep.violation("masked_token_rejected_on_walk", &tags, d, rp);
            return;
        }
        ops.push(format!("commit {t}"));
        hist.push(t);
    }
    if ctx.rep.samples.len() < ctx.rep.max_samples && !hist.is_empty() {
        let s = json!({"grammar": g.name, "kind": format!("{:?}", g.kind), "vocab": v.name, "n_vocab": v.n(), "history_bytes": bytes_dbg(&v.trie().decode_raw(&hist)), "ops": ops.len()});
        ctx.rep.sample(s);
    }
}

pub fn run(ctx: &mut Ctx) {
    let n_cases = pool::n_corpus() + ctx.pick(1200, 9000);
    // corpus entries are visited under several vocabularies: idx space = rounds x pool
    let rounds = ctx.pick(2, 6);
    for r in 0..rounds {
        for i in 0..n_cases {
            let idx = r * 1_000_000 + i;
            if r > 0 && i >= pool::n_corpus() {
                break;
            }
            if !ctx.mine(idx) {
                continue;
            }
            if ctx.out_of_time() {
                return;
            }
            run_case(ctx, idx);
        }
    }
}
