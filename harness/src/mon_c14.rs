//! C14: clones are independent and results do not depend on scheduling.
//! (1) exhaustive enumeration of interleavings of short per-clone op lists on one thread,
//! (2) real OS threads with seeded yields injected at the shared-lexer lock (hook H1) and an
//!     offline check of every logged result against a private reference,
//! (3) llg_par_compute_mask over constraints with different histories.

use crate::ctx::Ctx;
use crate::engine::*;
use crate::pool::{self, VKind};
use crate::rng::{fnv, Rng};
use crate::vocab::Vocab;
use crate::walker;
use llguidance::verif_hooks as vh;
use llguidance::Matcher;
use serde_json::{json, Value};
use std::cell::Cell;
use std::sync::atomic::{AtomicU64, Ordering};
use std::sync::{Arc, Mutex};

#[derive(Clone, Debug, PartialEq)]
enum Op {
    Mask,
    Commit(u32),
    Validate(Vec<u32>),
    Rollback(usize),
    FfTokens,
    FfBytes,
    Accepting,
}

#[derive(Clone, Debug, PartialEq)]
enum Res {
    Mask(Option<u64>, usize),
    Ok(bool),
    N(Option<usize>),
    Toks(Vec<u32>),
    Bytes(Vec<u8>),
    B(Option<bool>),
}

fn exec(m: &mut Matcher, op: &Op, n: usize) -> Res {
    match op {
        Op::Mask => match m.compute_mask() {
            Ok(x) => Res::Mask(Some(mask_hash(&x, n)), mask_list(&x, n).len()),
            Err(_) => Res::Mask(None, 0),
        },
        Op::Commit(t) => Res::Ok(m.consume_token(*t).is_ok()),
        Op::Validate(s) => Res::N(m.validate_tokens(s).ok()),
        Op::Rollback(k) => Res::Ok(m.rollback(*k).is_ok()),
        Op::FfTokens => Res::Toks(m.compute_ff_tokens()),
        Op::FfBytes => Res::Bytes(m.compute_ff_bytes()),
        Op::Accepting => Res::B(m.is_accepting().ok()),
    }
}

/// resolve a random op list against a private engine (tokens are taken from its own masks)
fn plan(rng: &mut Rng, m: &mut Matcher, v: &Vocab, len: usize, hot: &[u8]) -> (Vec<Op>, Vec<Res>) {
    let mut ops = vec![];
    let mut res = vec![];
    let mut depth = 0usize;
    let commits_first = rng.chance(1, 2);
    for i in 0..len {
        if m.is_stopped() {
            break;
        }
        let roll = if commits_first { if i + 1 < len && i < 2 { 3 } else if i >= 2 { rng.below(2) } else { rng.below(10) } } else { rng.below(10) };
        let op = match roll {
            0 | 1 => Op::Mask,
            2..=5 => {
                let Ok(mask) = m.deep_clone().compute_mask() else { break };
                // grammars that name their "hot" bytes (lexeme terminators etc.): prefer tokens made of them
                let hot_toks: Vec<u32> = if hot.is_empty() || !rng.chance(2, 3) {
                    vec![]
                } else {
                    mask_list(&mask, v.n()).into_iter().filter(|&t| { let w = &v.words[t as usize]; !w.is_empty() && w.len() <= 2 && w.iter().all(|b| hot.contains(b)) }).collect()
                };
                if !hot_toks.is_empty() {
                    let t = *rng.pick(&hot_toks);
                    let op = Op::Commit(t);
                    let r = exec(m, &op, v.n());
                    if let Res::Ok(true) = r {
                        depth += 1;
                    }
                    ops.push(op);
                    res.push(r);
                    continue;
                }
                match walker::choose(rng, &mask, v, walker::Policy::Extending) {
                    Some(t) => Op::Commit(t),
                    None => break,
                }
            }
            6 => {
                let k = 1 + rng.below(3);
                Op::Validate((0..k).map(|_| rng.below(v.n()) as u32).collect())
            }
            7 if depth > 0 => Op::Rollback(1 + rng.below(depth)),
            8 => {
                if rng.chance(1, 2) {
                    Op::FfTokens
                } else {
                    Op::FfBytes
                }
            }
            _ => Op::Accepting,
        };
        let r = exec(m, &op, v.n());
        match (&op, &r) {
            (Op::Commit(_), Res::Ok(true)) => depth += 1,
            (Op::Rollback(k), Res::Ok(true)) => depth -= *k,
            _ => {}
        }
        ops.push(op);
        res.push(r);
    }
    (ops, res)
}

fn interleavings(lens: &[usize]) -> Vec<Vec<usize>> {
    fn go(rem: &mut Vec<usize>, cur: &mut Vec<usize>, out: &mut Vec<Vec<usize>>) {
        if rem.iter().all(|&r| r == 0) {
            out.push(cur.clone());
            return;
        }
        for i in 0..rem.len() {
            if rem[i] > 0 {
                rem[i] -= 1;
                cur.push(i);
                go(rem, cur, out);
                cur.pop();
                rem[i] += 1;
            }
        }
    }
    let mut out = vec![];
    go(&mut lens.to_vec(), &mut vec![], &mut out);
    out
}

fn pick_case(rng: &mut Rng, idx: u64) -> (GCase, Vocab) {
    let g = loop {
        let twins = crate::mon_c11::twin_prefix_grammars();
        let g = if rng.chance(1, 3) {
            // two clones that take different prefixes reach the same (row, lexer state) shape
            twins[rng.below(twins.len())].clone()
        } else if rng.chance(1, 2) {
            let i = rng.below(pool::n_corpus() as usize) as u64;
            pool::grammar(rng, i)
        } else {
            pool::grammar(rng, 1_000_000 + idx)
        };
        if !g.has_tag("tokrange_eos") {
            break g;
        }
    };
    let vk = match rng.below(6) {
        0 => VKind::V1,
        1 | 2 => VKind::Vsyn,
        3 => VKind::VsynC,
        _ => VKind::Bpe(rng.below(2)),
    };
    let v = pool::make_vocab(rng, &g, vk);
    (g, v)
}

/// base engine advanced by a few tokens, so that clones start from a non-initial state
fn base_engine(rng: &mut Rng, g: &GCase, v: &Vocab) -> Option<(Matcher, Vec<u32>)> {
    let f = factory(v, &FactoryOpts::default()).ok()?;
    let mut m = matcher(&f, g).ok()?;
    if m.is_error() {
        return None;
    }
    let k = if rng.chance(1, 2) { 0 } else { rng.below(4) };
    let (h, _) = walker::walk(rng, &mut m, v, k);
    if m.is_stopped() {
        return None;
    }
    Some((m, h))
}

fn enum_case(ctx: &mut Ctx, idx: u64) {
    let mut rng = ctx.case_rng(idx);
    let (g, v) = pick_case(&mut rng, idx);
    let hot: Vec<u8> = g.tags.iter().find_map(|t| t.strip_prefix("hot:")).map(|h| h.as_bytes().to_vec()).unwrap_or_default();
    let Some((base, hist0)) = base_engine(&mut rng, &g, &v) else { return };
    let shape: &[usize] = match rng.below(3) {
        0 => &[4, 4],
        1 => &[5, 5],
        _ => &[3, 3, 3],
    };
    let shape: Vec<usize> = if ctx.thorough || shape.len() == 2 { shape.to_vec() } else { vec![3, 3, 2] };
    // clone kinds: shallow (shared lexer) / deep, chosen per clone
    let deep: Vec<bool> = shape.iter().map(|_| rng.chance(1, 2)).collect();
    // private reference runs: every reference engine is built from a factory of its own (own slicer, own lexer tables)
    // and replays the base history, so that nothing at all is shared with the clones under test
    let mut plans = vec![];
    for &len in &shape {
        let private = factory(&v, &FactoryOpts::default()).ok().and_then(|pf| {
            let mut pm = matcher(&pf, &g).ok()?;
            for &t in &hist0 {
                pm.consume_token(t).ok()?;
            }
            Some(pm)
        });
        let Some(mut p) = private else { return };
        ctx.rep.inc("private_factories_built");
        let (ops, res) = plan(&mut rng, &mut p, &v, len, &hot);
        plans.push((ops, res));
    }
    let lens: Vec<usize> = plans.iter().map(|p| p.0.len()).collect();
    if lens.iter().sum::<usize>() < 3 {
        return;
    }
    let ils = interleavings(&lens);
    ctx.rep.inc("enum_cases");
    let mut distinct_mask_ops = 0;
    for il in &ils {
        let mut clones: Vec<Matcher> = deep.iter().map(|&d| if d { base.deep_clone() } else { base.clone() }).collect();
        let mut pos = vec![0usize; shape.len()];
        for &c in il {
            let op = &plans[c].0[pos[c]];
            let got = exec(&mut clones[c], op, v.n());
            ctx.rep.inc("interleaved_op_checks");
            if got != plans[c].1[pos[c]] {
                let d = json!({"grammar": g.text, "vocab": v.name, "base_history": hist0, "clone_kinds_deep": deep, "plans": plans.iter().map(|p| format!("{:?}", p.0)).collect::<Vec<_>>(),
                    "interleaving": il, "clone": c, "op_index": pos[c], "op": format!("{op:?}"), "got": format!("{got:?}"), "private_reference": format!("{:?}", plans[c].1[pos[c]])});
                let rp = ctx.replay(idx);
                ctx.rep.violation("result_depends_on_interleaving", &g.tags, d, rp);
                return;
            }
            if matches!(op, Op::Mask) {
                distinct_mask_ops += 1;
            }
            pos[c] += 1;
        }
    }
    ctx.rep.add("interleavings_executed", ils.len() as u64);
    if distinct_mask_ops > 0 && plans.iter().filter(|p| p.0.iter().any(|o| matches!(o, Op::Commit(_)))).count() >= 2 {
        ctx.rep.nontrivial(g.hash() ^ fnv(format!("{:?}", plans.iter().map(|p| &p.0).collect::<Vec<_>>()).as_bytes()) ^ fnv(v.name.as_bytes()));
    }
    if idx % 40 == 0 {
        ctx.rep.sample(json!({"mode": "exhaustive_interleavings", "grammar": g.name, "vocab": v.name, "op_lists": plans.iter().map(|p| format!("{:?}", p.0)).collect::<Vec<_>>(), "interleavings": ils.len(), "deep": deep}));
    }
}

// ---------------------------------------------------------------- real threads

thread_local! {
    static TAG: Cell<u64> = const { Cell::new(u64::MAX) };
    static TRNG: Cell<u64> = const { Cell::new(0) };
}
static LOCK_ORDER: Mutex<Vec<u8>> = Mutex::new(Vec::new());
static YIELDS: AtomicU64 = AtomicU64::new(0);
static SCHED_EVENTS: AtomicU64 = AtomicU64::new(0);

fn install_sched_hook() {
    vh::set_sched_hook(Some(Box::new(|site| {
        let tag = TAG.with(|t| t.get());
        if tag == u64::MAX {
            return;
        }
        SCHED_EVENTS.fetch_add(1, Ordering::Relaxed);
        if site == vh::SITE_SHARED_LOCKED {
            if let Ok(mut l) = LOCK_ORDER.lock() {
                if l.len() < 4000 {
                    l.push(tag as u8);
                }
            }
            return;
        }
        // between critical sections: seeded yields / short sleeps
        let mut x = TRNG.with(|r| r.get());
        x ^= x << 13;
        x ^= x >> 7;
        x ^= x << 17;
        TRNG.with(|r| r.set(x));
        match x % 8 {
            0 | 1 => {
                YIELDS.fetch_add(1, Ordering::Relaxed);
                std::thread::yield_now();
            }
            2 => {
                YIELDS.fetch_add(1, Ordering::Relaxed);
                std::thread::sleep(std::time::Duration::from_micros(x % 40));
            }
            _ => {}
        }
    })));
}

fn thread_case(ctx: &mut Ctx, idx: u64) {
    let mut rng = ctx.case_rng(idx);
    let (g, v) = pick_case(&mut rng, idx);
    let hot: Vec<u8> = g.tags.iter().find_map(|t| t.strip_prefix("hot:")).map(|h| h.as_bytes().to_vec()).unwrap_or_default();
    let Some((mut base, hist0)) = base_engine(&mut rng, &g, &v) else { return };
    let n_clones = 2 + rng.below(ctx.pick(7, 15));
    let op_len = ctx.pick(10, 24);
    // some clones are taken before the base computes further masks (lexer grows afterwards)
    let mut engines: Vec<(Matcher, bool)> = vec![];
    for i in 0..n_clones {
        let deep = rng.chance(1, 2);
        engines.push((if deep { base.deep_clone() } else { base.clone() }, deep));
        if i == n_clones / 2 {
            let _ = base.compute_mask();
        }
    }
    // private references on deep clones, sequentially
    let mut plans = vec![];
    for (_e, _) in &engines {
        // private reference: own factory, base history replayed (nothing shared with the engines under test)
        let private = factory(&v, &FactoryOpts::default()).ok().and_then(|pf| {
            let mut pm = matcher(&pf, &g).ok()?;
            for &t in &hist0 {
                pm.consume_token(t).ok()?;
            }
            Some(pm)
        });
        let Some(mut p) = private else { return };
        ctx.rep.inc("private_factories_built");
        let (ops, res) = plan(&mut rng, &mut p, &v, op_len, &hot);
        plans.push((ops, res));
    }
    LOCK_ORDER.lock().unwrap().clear();
    let n = v.n();
    let seed = rng.next_u64();
    let logs: Arc<Mutex<Vec<(usize, Vec<Res>)>>> = Arc::new(Mutex::new(vec![]));
    let barrier = Arc::new(std::sync::Barrier::new(n_clones));
    let mut handles = vec![];
    for (i, ((mut e, _), (ops, _))) in engines.into_iter().zip(plans.iter().cloned()).enumerate() {
        let logs = logs.clone();
        let barrier = barrier.clone();
        handles.push(std::thread::spawn(move || {
            TAG.with(|t| t.set(i as u64));
            TRNG.with(|r| r.set(seed ^ (i as u64 + 1).wrapping_mul(0x9E3779B97F4A7C15) | 1));
            barrier.wait();
            let mut out = vec![];
            for op in &ops {
                out.push(exec(&mut e, op, n));
            }
            TAG.with(|t| t.set(u64::MAX));
            logs.lock().unwrap().push((i, out));
        }));
    }
    let mut panicked = false;
    for h in handles {
        if h.join().is_err() {
            panicked = true;
        }
    }
    ctx.rep.inc("thread_cases");
    ctx.rep.add("threads_run", n_clones as u64);
    if panicked {
        let d = json!({"grammar": g.text, "vocab": v.name, "base_history": hist0, "n_clones": n_clones});
        let rp = ctx.replay(idx);
        ctx.rep.violation("worker_thread_panicked", &g.tags, d, rp);
        return;
    }
    let order = LOCK_ORDER.lock().unwrap().clone();
    let switches = order.windows(2).filter(|w| w[0] != w[1]).count();
    ctx.rep.add("lock_acquisitions_logged", order.len() as u64);
    ctx.rep.add("lock_owner_switches", switches as u64);
    for (i, out) in logs.lock().unwrap().iter() {
        for (k, r) in out.iter().enumerate() {
            ctx.rep.inc("threaded_op_checks");
            if *r != plans[*i].1[k] {
                let d = json!({"grammar": g.text, "vocab": v.name, "base_history": hist0, "n_clones": n_clones, "clone": i, "op_index": k, "op": format!("{:?}", plans[*i].0[k]),
                    "got": format!("{r:?}"), "private_reference": format!("{:?}", plans[*i].1[k]), "lock_order_head": order.iter().take(64).collect::<Vec<_>>()});
                let rp = ctx.replay(idx);
                ctx.rep.violation("threaded_result_differs_from_private_reference", &g.tags, d, rp);
                return;
            }
        }
    }
    if switches >= 2 {
        // distinct interleaving signature
        ctx.rep.nontrivial(fnv(&order) ^ g.hash());
    }
    if idx % 40 == 1 {
        ctx.rep.sample(json!({"mode": "threads", "grammar": g.name, "vocab": v.name, "n_clones": n_clones, "lock_order_head": order.iter().take(48).collect::<Vec<_>>(), "owner_switches": switches}));
    }
}

// ---------------------------------------------------------------- llg_par_compute_mask with different histories

fn par_case(ctx: &mut Ctx, idx: u64) {
    use llguidance::ffi::*;
    use std::ffi::CString;
    let mut rng = ctx.case_rng(idx);
    let (g, v) = pick_case(&mut rng, idx);
    let hot: Vec<u8> = g.tags.iter().find_map(|t| t.strip_prefix("hot:")).map(|h| h.as_bytes().to_vec()).unwrap_or_default();
    if g.text.contains('\0') {
        return;
    }
    // C tokenizer over the same words
    let lens: Vec<u32> = v.words.iter().map(|w| w.len() as u32).collect();
    let bytes: Vec<u8> = v.words.concat();
    let init = LlgTokenizerInit {
        vocab_size: v.n() as u32,
        tok_eos: v.eos,
        token_lens: lens.as_ptr(),
        token_bytes: bytes.as_ptr(),
        tokenizer_json: std::ptr::null(),
        tokenize_assumes_string: false,
        tokenize_fn: None,
        use_approximate_greedy_tokenize_fn: true,
        tokenize_user_data: std::ptr::null(),
        slices: std::ptr::null(),
    };
    let mut err = vec![0i8; 128];
    let tok = unsafe { llg_new_tokenizer(&init, err.as_mut_ptr() as *mut _, err.len()) };
    if tok.is_null() {
        return;
    }
    let mut cinit: LlgConstraintInit = unsafe { std::mem::zeroed() };
    llg_constraint_init_set_defaults(&mut cinit, tok);
    cinit.log_stderr_level = 0;
    cinit.limits.verbose_errors = false;
    let kind = CString::new(match g.kind { GKind::Lark => "lark", GKind::Regex => "regex", GKind::Json => "json_schema" }).unwrap();
    let text = CString::new(g.text.clone()).unwrap();
    let base = llg_new_constraint_any(&cinit, kind.as_ptr(), text.as_ptr());
    let nv = Vocab::from_words("mirror", v.words.clone(), v.eos, false);
    let ok = (|| -> Option<()> {
        if !llg_get_error(unsafe { &*base }).is_null() {
            return None;
        }
        let f = factory(&nv, &FactoryOpts::default()).ok()?;
        let k = 2 + rng.below(ctx.pick(7, 15));
        let n_words = nv.n().div_ceil(32);
        // k clones with different histories, each mirrored by a Rust matcher
        let mut cs: Vec<*mut LlgConstraint> = vec![];
        let mut mirrors: Vec<Matcher> = vec![];
        for _ in 0..k {
            let c = llg_clone_constraint(unsafe { &*base });
            let mut m = matcher(&f, &g).ok()?;
            let steps = rng.below(6);
            for _ in 0..steps {
                if m.is_stopped() {
                    break;
                }
                let mut res: LlgMaskResult = unsafe { std::mem::zeroed() };
                if llg_compute_mask(unsafe { &mut *c }, &mut res) != 0 || res.is_stop {
                    break;
                }
                let Ok(mask) = m.compute_mask() else { break };
                let Some(t) = walker::choose(&mut rng, &mask, &nv, walker::Policy::Extending) else { break };
                let mut cr: LlgCommitResult = unsafe { std::mem::zeroed() };
                if llg_commit_token(unsafe { &mut *c }, t, &mut cr) != 0 {
                    break;
                }
                if m.consume_token(t).is_err() {
                    break;
                }
            }
            cs.push(c);
            mirrors.push(m);
        }
        let mut bufs: Vec<Vec<u32>> = (0..k).map(|_| vec![0xDEAD_BEEF; n_words]).collect();
        let steps: Vec<LlgConstraintStep> = (0..k).map(|i| LlgConstraintStep { constraint: cs[i], mask_dest: bufs[i].as_mut_ptr(), mask_byte_len: n_words * 4 }).collect();
        unsafe { llg_par_compute_mask(steps.as_ptr(), steps.len(), std::ptr::null(), None) };
        ctx.rep.inc("par_batches");
        let mut bad = None;
        for i in 0..k {
            ctx.rep.inc("par_masks_checked");
            let want: Vec<u32> = if mirrors[i].is_stopped() {
                let e = mirrors[i].compute_mask_or_eos().ok()?;
                let mut w = e.as_slice().to_vec();
                w.resize(n_words, 0);
                w.truncate(n_words);
                w
            } else {
                match mirrors[i].compute_mask() {
                    Ok(m) => {
                        let mut w = m.as_slice().to_vec();
                        w.resize(n_words, 0);
                        w.truncate(n_words);
                        w
                    }
                    Err(_) => continue,
                }
            };
            if !llg_get_error(unsafe { &*cs[i] }).is_null() {
                continue;
            }
            if bufs[i] != want {
                bad = Some(i);
                break;
            }
        }
        for c in cs {
            unsafe { llg_free_constraint(c) };
        }
        if let Some(i) = bad {
            let d = json!({"grammar": g.text, "vocab_size": nv.n(), "batch": k, "constraint_index": i});
            let rp = ctx.replay(idx);
            ctx.rep.violation("par_mask_differs_from_sequential_rust_mask", &g.tags, d, rp);
        } else {
            ctx.rep.nontrivial(g.hash() ^ idx.rotate_left(9) ^ 0x9a7);
        }
        Some(())
    })();
    let _ = ok;
    unsafe {
        llg_free_constraint(base);
        llg_free_tokenizer(tok);
    }
}

pub fn run(ctx: &mut Ctx) {
    install_sched_hook();
    let only_threads = ctx.arg("--mode").as_deref() == Some("threads");
    let n_cases = ctx.pick(4000, 30000);
    for idx in 0..n_cases {
        if !ctx.mine(idx) {
            continue;
        }
        if ctx.out_of_time() {
            break;
        }
        match if only_threads { 1 } else { idx % 3 } {
            0 => enum_case(ctx, idx),
            1 => thread_case(ctx, idx),
            _ => par_case(ctx, idx),
        }
    }
    ctx.rep.add("sched_hook_events", SCHED_EVENTS.load(Ordering::Relaxed));
    ctx.rep.add("injected_yields", YIELDS.load(Ordering::Relaxed));
    ctx.rep.exhaustive = None;
    let _: Option<Value> = None;
}
