//! toktrie-only subset of the C16 monitor, small enough to run under Miri.
//! `llgv-tt <seed> <lo> <hi> <out.json>`
#![allow(dead_code)]

#[path = "../../harness/src/mon_c16_core.rs"]
mod mon_c16_core;
#[path = "../../harness/src/report.rs"]
mod report;
#[path = "../../harness/src/rng.rs"]
mod rng;

fn main() {
    let a: Vec<String> = std::env::args().collect();
    let seed: u64 = a.get(1).and_then(|x| x.parse().ok()).unwrap_or(1);
    let lo: u64 = a.get(2).and_then(|x| x.parse().ok()).unwrap_or(0);
    let hi: u64 = a.get(3).and_then(|x| x.parse().ok()).unwrap_or(4);
    let mut rep = report::Report::new("C16");
    mon_c16_core::run_core(&mut rep, seed, lo, hi, 1, 0, true, u128::MAX);
    let out = serde_json::to_string(&rep.to_json()).unwrap();
    match a.get(4) {
        Some(p) => std::fs::write(p, out).unwrap(),
        None => println!("{out}"),
    }
}
