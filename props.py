"""Per-property run configuration for ./check."""

REL = {"variant": "rel"}


def q(deadline=60, watchdog=600, **kw):
    d = dict(REL)
    d.update({"deadline": deadline, "watchdog": watchdog})
    d.update(kw)
    return d


import json as _json
import os as _os
import subprocess as _sp
import time as _time

_ROOT = _os.path.dirname(_os.path.abspath(__file__))


def miri_tt(prop, tier, seed, n_procs, cases_per_proc, log, timeout):
    """toktrie-only scenarios of the C16 core monitor under Miri (UB + data-race interpreter)."""
    d = _os.path.join(_ROOT, "harness_tt")
    if not _os.path.exists(_os.path.join(d, "Cargo.lock")):
        import shutil
        shutil.copy("/repo/Cargo.lock", _os.path.join(d, "Cargo.lock"))
    env = dict(_os.environ)
    env.update({"CARGO_NET_OFFLINE": "true", "CARGO_TARGET_DIR": _os.path.join(d, "target-miri"), "MIRIFLAGS": "-Zmiri-disable-isolation"})
    t0 = _time.time()
    b = _sp.run(["cargo", "+nightly", "miri", "run", "--offline", "--", str(seed), "0", "0"], cwd=d, env=env, stdout=_sp.PIPE, stderr=_sp.STDOUT, text=True)
    if b.returncode != 0:
        log("miri build/run failed: " + b.stdout[-1500:])
        return {"counters": {"inconclusive": 1, "inconclusive.miri_unavailable": 1}}
    log(f"miri warm-up {_time.time() - t0:.0f}s")
    work = _os.path.join(_ROOT, ".work")
    _os.makedirs(work, exist_ok=True)
    procs = []
    for k in range(n_procs):
        out = _os.path.join(work, f"{prop}.miri.{k}.json")
        if _os.path.exists(out):
            _os.remove(out)
        lo = 5_000_000 + k * cases_per_proc
        errp = _os.path.join(work, f"{prop}.miri.{k}.err")
        p = _sp.Popen(["cargo", "+nightly", "miri", "run", "--offline", "--", str(seed), str(lo), str(lo + cases_per_proc), out], cwd=d, env=env,
                      stdout=_sp.DEVNULL, stderr=open(errp, "w"))
        procs.append((p, out, errp, lo))
    res = {"counters": {}, "violations": [], "samples": []}
    deadline = _time.time() + timeout
    for p, out, errp, lo in procs:
        try:
            p.wait(timeout=max(1, deadline - _time.time()))
        except _sp.TimeoutExpired:
            p.kill()
            p.wait()
            res["counters"]["inconclusive"] = res["counters"].get("inconclusive", 0) + 1
            res["counters"]["inconclusive.miri_watchdog"] = res["counters"].get("inconclusive.miri_watchdog", 0) + 1
            continue
        err = open(errp).read()
        if "Undefined Behavior" in err or "error: unsupported operation" in err or (p.returncode != 0 and "panicked" not in err):
            first = [l for l in err.splitlines() if "error" in l.lower()][:3]
            res["violations"].append({"property": prop, "kind": "miri_undefined_behavior", "tags": ["miri"],
                                      "detail": {"first_lines": first, "stderr_tail": err[-3000:]},
                                      "replay": {"seed": seed, "case": lo, "tier": tier, "args": []}})
            continue
        if p.returncode != 0:
            res["violations"].append({"property": prop, "kind": "miri_run_panicked", "tags": ["miri"], "detail": {"stderr_tail": err[-3000:]},
                                      "replay": {"seed": seed, "case": lo, "tier": tier, "args": []}})
            continue
        try:
            dd = _json.load(open(out))
        except Exception:
            continue
        for k2, v in dd["counters"].items():
            if k2.startswith("violations"):
                continue
            res["counters"]["miri." + k2] = res["counters"].get("miri." + k2, 0) + v
        res["violations"].extend(dd["violations"])
    res["counters"]["miri.processes"] = n_procs
    return res


def post_c16(prop, tier, seed, results, build, log):
    if tier == "quick":
        return miri_tt(prop, tier, seed, 8, 2, log, 600)
    return miri_tt(prop, tier, seed, 16, 60, log, 3600)


def asan_death(prop, r):
    """a worker killed by a sanitizer report is a violation, anything else is left to the default handling"""
    err = r.get("stderr", "")
    if "AddressSanitizer" in err or "LeakSanitizer" in err:
        lines = err.splitlines()
        start = next((i for i, l in enumerate(lines) if "ERROR: AddressSanitizer" in l or "ERROR: LeakSanitizer" in l), 0)
        frames = [l.strip() for l in lines[start:start + 40] if "/repo/" in l][:4]
        head = lines[start] if lines else ""
        import re
        kind = re.sub(r"0x[0-9a-f]+", "ADDR", head)
        kind = re.sub(r"==\d+==", "", kind).strip()
        return {"property": prop, "kind": "asan_report", "tags": ["asan"],
                "detail": {"report_head": kind, "first_repo_frames": frames, "shard": r["shard"], "variant": r["variant"]},
                "replay": {"seed": None, "case": None, "tier": "quick", "args": []}}
    return None


ASAN_ENV = {"ASAN_OPTIONS": "halt_on_error=1:abort_on_error=0:detect_leaks=0:exitcode=77", "RUST_BACKTRACE": "0"}


SIGNAMES = {4: "SIGILL", 6: "SIGABRT", 7: "SIGBUS", 8: "SIGFPE", 9: "SIGKILL", 11: "SIGSEGV", 24: "SIGXCPU"}


def c20_runner(binp, prop, tier, seed, extra, nshards, run, root, work, env0, log):
    """Like run_workers, but a worker that dies is restarted after the case it died in; the death is
    attributed to that case through the BEGIN/END journal and reported as a violation record."""
    import signal
    _os.makedirs(work, exist_ok=True)
    env = dict(env0)
    env.update(run.get("env") or {})
    tag = "." + run["variant"] + run.get("tag", "")
    deadline = _time.time() + run.get("watchdog", 900)
    soft_end = _time.time() + run.get("deadline", 100)
    state = []
    for k in range(nshards):
        state.append({"k": k, "start_after": None, "proc": None, "parts": [], "deaths": [], "attempt": 0, "done": False, "status": "ok"})

    def launch(st):
        out = _os.path.join(work, f"{prop}{tag}.{st['k']}.{st['attempt']}.json")
        jr = _os.path.join(work, f"{prop}{tag}.{st['k']}.journal")
        if st["attempt"] == 0 and _os.path.exists(jr):
            _os.remove(jr)
        if _os.path.exists(out):
            _os.remove(out)
        argv = [binp, prop, "--tier", tier, "--seed", str(seed), "--shard", f"{st['k']}/{nshards}", "--out", out, "--journal", jr] + extra
        if st["start_after"] is not None:
            argv += ["--start-after", str(st["start_after"])]
            # the soft deadline covers the whole run, not each restarted worker (later --deadline wins)
            argv += ["--deadline", str(max(1, int(soft_end - _time.time())))]
        errp = _os.path.join(work, f"{prop}{tag}.{st['k']}.{st['attempt']}.err")
        st["proc"] = _sp.Popen(argv, cwd=root, env=env, stdout=_sp.DEVNULL, stderr=open(errp, "w"))
        st["out"], st["journal"], st["errp"] = out, jr, errp

    for st in state:
        launch(st)
    while any(not st["done"] for st in state):
        for st in state:
            if st["done"]:
                continue
            try:
                st["proc"].wait(timeout=0.2)
            except _sp.TimeoutExpired:
                if _time.time() > deadline:
                    st["proc"].kill()
                    st["proc"].wait()
                    st["done"] = True
                    st["status"] = "watchdog"
                continue
            rc = st["proc"].returncode
            if rc == 0 and _os.path.exists(st["out"]):
                st["parts"].append(st["out"])
                st["done"] = True
                continue
            # died: find the case that was in progress
            last_b, cls, head = None, "", ""
            try:
                for line in open(st["journal"]):
                    f = line.split()
                    if f and f[0] == "B":
                        rest = line.split(" ", 2)[2] if len(f) > 2 else ""
                        last_b, cls, head = int(f[1]), rest.split(" | ")[0].strip(), rest.split(" | ", 1)[1].strip() if " | " in rest else ""
                    elif f and f[0] == "E" and last_b == int(f[1]):
                        last_b = None
            except FileNotFoundError:
                pass
            err = open(st["errp"]).read()[-4000:]
            sig = -rc if rc is not None and rc < 0 else None
            if last_b is None or st["attempt"] > 40:
                st["done"] = True
                st["status"] = f"died rc={rc} outside any case: {err[-300:]}"
                continue
            st["deaths"].append({"case": last_b, "class": cls, "input_head": head, "rc": rc, "signal": SIGNAMES.get(sig, str(sig)), "stderr_tail": err[-1500:]})
            st["start_after"] = last_b
            st["attempt"] += 1
            launch(st)
    results = []
    for st in state:
        data = {"counters": {}, "distinct": [], "samples": [], "violations": [], "notes": [], "lists": {}, "exhaustive": None}
        for pth in st["parts"]:
            try:
                d = _json.load(open(pth))
            except Exception:
                continue
            for k2, v in d["counters"].items():
                data["counters"][k2] = max(data["counters"].get(k2, 0), v) if k2.startswith("max.") else data["counters"].get(k2, 0) + v
            data["distinct"].extend(d["distinct"])
            data["samples"].extend(d["samples"])
            data["violations"].extend(d["violations"])
            data["notes"].extend(d.get("notes", []))
            for k2, v in (d.get("lists") or {}).items():
                data["lists"].setdefault(k2, []).extend(v)
        for dd in st["deaths"]:
            how = dd["signal"] if dd["signal"] not in (None, "None") else f"exit code {dd['rc']}"
            kind = "process_killed_" + str(how).replace(" ", "_")
            if "memory allocation of" in dd["stderr_tail"]:
                kind = "process_aborted_on_allocation_failure"
            if "stack overflow" in dd["stderr_tail"] or "has overflowed its stack" in dd["stderr_tail"]:
                kind = "process_aborted_on_stack_overflow"
            if "AddressSanitizer" in dd["stderr_tail"]:
                kind = "asan_report"
            data["violations"].append({"property": prop, "kind": kind, "tags": [dd["class"], run["variant"]],
                                       "detail": {"class": dd["class"], "case": dd["case"], "input_head": dd["input_head"], "variant": run["variant"], "stderr_tail": dd["stderr_tail"][-700:]},
                                       "replay": {"seed": seed, "case": dd["case"], "tier": tier, "args": []}})
            data["counters"]["worker_deaths"] = data["counters"].get("worker_deaths", 0) + 1
        results.append({"shard": st["k"], "status": st["status"], "rc": 0, "data": data, "stderr": ""})
    return results


def c20_join(prop, tier, seed, lists, results):
    """overflow oracle: the chk variant panicked with an arithmetic overflow on case x AND the rel variant
    built a usable engine for x  =>  a result was returned after an internal overflow"""
    out = {"violations": [], "counters": {}}
    chk_over = set(lists.get(("chk", "overflow_panic"), []))
    rel_usable = set(lists.get(("rel", "usable"), []))
    out["counters"]["chk_overflow_panics"] = len(chk_over)
    for c in sorted(chk_over & rel_usable)[:50]:
        out["violations"].append({"property": prop, "kind": "result_returned_after_internal_arithmetic_overflow", "tags": ["overflow_oracle"],
                                  "detail": {"case": c, "explanation": "overflow-checks build panicked with an arithmetic overflow on this input; the release build returned a usable engine"},
                                  "replay": {"seed": seed, "case": c, "tier": tier, "args": []}})
    return out


PROPS = {
    "C01": {
        "eval_counter": "token_checks",
        "case_counter": "cases",
        "rule": "case = (grammar from corpus/generators, vocabulary V1|Vsyn|Vbpe, canonical flag, random walk with rollbacks); "
                "at every visited state the mask is compared token-by-token with validate_tokens([t]) on a deep clone and "
                "consume_token(t) on a shallow clone, EOS-in-mask with is_accepting, and validate_tokens(seq) with the number of tokens "
                "a clone commits one by one. evaluations = individual token comparisons. A state is non-trivial when its mask has "
                ">=2 and <|V| tokens and (for multi-byte vocabularies) at least one allowed multi-byte token; distinct by "
                "(grammar hash, token history hash, vocabulary name). try_consume_tokens(seq) on a clone must take exactly the committable "
                "prefix and end in the state (stop flag, mask) that committing that prefix one by one ends in. Vocabularies include a "
                "layout with the special tokens at low ids (1, 2, 10, 100..110), grammars include sentences mixing text and named special tokens.",
        "assumptions": ["clone()/deep_clone() give independent engines (decided separately by C14)",
                        "a failing consume_token leaves the original (un-cloned) engine untouched because it is applied to a clone"],
        "quick": {"runs": [q(deadline=45)], "floor": {"states": 1500, "distinct_nontrivial": 300, "validate_seq_checks": 200}},
        "thorough": {"runs": [q(deadline=600, watchdog=3600), dict(q(deadline=360, watchdog=3600), variant="chk")],
                     "floor": {"states": 20000, "distinct_nontrivial": 3000}},
    },
    "C11": {
        "eval_counter": "fresh_query_checks",
        "case_counter": "cases",
        "rule": "case = (grammar incl. a 'twin prefix' family where two different prefixes return to the same Earley row index and lexer "
                "state, vocabulary, random program of commits / rollbacks / resets with read-only queries in seeded random order); at every "
                "state: mask twice, mask after invalidate_bias_cache, and every query (mask, is_accepting, ff bytes, ff tokens, stop status) "
                "against a *fresh* engine that replayed the same tokens and is asked only that query. evaluations = query comparisons "
                "against fresh engines. Non-trivial = state compared after the bias cache reported >=1 real hit (hook counter H3) with a "
                "mask of >=2 and <|V| tokens; distinct by (grammar, history, vocabulary).",
        "assumptions": ["a freshly built engine replaying the same tokens is the reference for 'no trace left'"],
        "quick": {"runs": [q(deadline=45)], "floor": {"states": 800, "distinct_nontrivial": 100, "bias_cache_hits_observed": 200}},
        "thorough": {"runs": [q(deadline=480, watchdog=3600)], "floor": {"states": 15000, "distinct_nontrivial": 2000}},
    },
    "C12": {
        "eval_counter": "observable_checks",
        "case_counter": "cases",
        "rule": "case = random program over {commit k tokens, run to completion, commit EOS, rollback j (1..history), reset}; after every "
                "rollback the engine is compared with a fresh replay engine on mask, accepting, forced bytes/tokens, stop status and "
                "validate_tokens probes, and then both are driven in lock-step comparing every mask; a forward phase that follows a rollback "
                "and commits tokens chosen from a FRESH engine (no query on the engine under test, one phase in three through a single "
                "consume_tokens call) is compared with the fresh replay right away. evaluations = observable comparisons. "
                "Non-trivial = rollback of >=2 tokens, or out of a stopped state, or over an EOS; distinct by (grammar, program, vocabulary).",
        "assumptions": ["fresh replay engine is the reference for 'never saw those k tokens'"],
        "quick": {"runs": [q(deadline=45)], "floor": {"rollbacks": 800, "distinct_nontrivial": 200, "lockstep_masks": 1500}},
        "thorough": {"runs": [q(deadline=480, watchdog=3600), dict(q(deadline=240, watchdog=3600), variant="chk")],
                     "floor": {"rollbacks": 15000, "distinct_nontrivial": 3000}},
    },
    "C10": {
        "eval_counter": "states",
        "case_counter": "cases",
        "rule": "case = (grammar biased to JSON strings with maxLength 9..64 / pattern / format / additionalProperties / lazy lexemes, "
                "vocabulary Vsyn|Vbpe, slice list = default JSON slices or a random nested char-class list accepted by the factory); two engines "
                "(slices S vs no slices) are driven in lock-step and every pair of masks must be bit-identical (raw words too), together with "
                "is_accepting, ff tokens, commit results and stop status. evaluations = mask pairs compared. Non-trivial = state where "
                "last_step_stats().slices_applied > 0 on the sliced engine; distinct by (grammar, history, vocabulary, slice list).",
        "assumptions": ["ParserFactory::new(.., []) is the unsliced reference path"],
        "quick": {"runs": [q(deadline=45)], "floor": {"states": 3000, "distinct_nontrivial": 300, "slices_applied": 300}},
        "thorough": {"runs": [q(deadline=480, watchdog=3600)], "floor": {"states": 50000, "distinct_nontrivial": 5000}},
    },
    "C13": {
        "eval_counter": "forced_bytes_checked",
        "case_counter": "cases",
        "rule": "four workloads: (a) at every state of a walk the bytes reported by compute_ff_bytes are replayed on an independent "
                "no-forcing single-byte engine fed with the same byte history: at each position that engine's mask must be exactly the one "
                "forced byte (and not EOS); (b) canonical tokenizers: compute_ff_tokens decodes to a prefix of the forced bytes, every token "
                "commits, and afterwards is_accepting and the set of acceptable next bytes equal those of the byte engine after the same "
                "bytes; (c) Constraint with ff_tokens capability: tokens returned by commit_token beyond the sampled one are a prefix of the "
                "reference forced bytes and commit on a reference matcher; (d) TokenParser::process_prompt on random prompts: "
                "decode(returned prompt) ++ pending forced bytes == decode(prompt) ++ initially forced bytes. evaluations = forced bytes "
                "individually confirmed unique. Non-trivial = state with >=1 forced byte (distinct by grammar, byte history, vocabulary) or "
                "prompt that was actually re-tokenised.",
        "assumptions": ["the single-byte no-forcing engine is the reference for 'only byte the grammar allows' (its own masks are decided by C01/C04/C05)"],
        "quick": {"runs": [q(deadline=45)], "floor": {"states_with_forced_bytes": 500, "distinct_nontrivial": 200, "states_with_ff_tokens": 100, "prompt_cases": 200, "constraint_commits": 500}},
        "thorough": {"runs": [q(deadline=480, watchdog=3600)], "floor": {"states_with_forced_bytes": 10000, "distinct_nontrivial": 3000}},
    },
    "C02": {
        "eval_counter": "token_checks",
        "case_counter": "cases",
        "rule": "case = (grammar, multi-byte vocabulary V, walk); at every state the byte history is replayed on an independent "
                "single-byte engine E1: stop status and is_accepting must be equal, and for EVERY non-special token t of V: t acceptable on V "
                "(mask, or validate_tokens under a canonical tokenizer) <=> E1 accepts bytes(t) one at a time (mask for 1 byte, "
                "validate_tokens over the byte tokens otherwise); additionally a random different segmentation of the same bytes over V is "
                "committed on a fresh engine and must be accepted and give a bit-identical mask. evaluations = token comparisons. "
                "Non-trivial = state in which at least one allowed multi-byte token was compared; distinct by (grammar, bytes, vocabulary).",
        "assumptions": ["special tokens are excluded (compared within one vocabulary only, see C19)"],
        "quick": {"runs": [q(deadline=45)], "floor": {"states": 3000, "distinct_nontrivial": 800, "resegmentations": 500}},
        "thorough": {"runs": [q(deadline=480, watchdog=3600)], "floor": {"states": 50000, "distinct_nontrivial": 10000}},
    },
    "C04": {
        "eval_counter": "mask_bytes_compared",
        "case_counter": "cases",
        "rule": "case = regex generated as a harness-owned AST (literals incl. multi-byte UTF-8, classes, negated classes, '.', (?s:.), "
                "?*+{m,n}{m,}, alternation, (?i), Lark & and guarded ~, %regex substring) entered through from_regex / `start: /rx/` / Lark "
                "terminal algebra / named terminals / %regex; oracle = reference DFA built from the AST (Thompson + subset construction, "
                "product/complement, liveness). (1) DFS over ALL byte strings over a <=6-byte alphabet (bytes of the regex's own characters, "
                "UTF-8 fragments, foreign bytes) up to length 5 (quick) / 7 (thorough): at every node the full 255-byte single-byte mask must "
                "equal the set of live next bytes and is_accepting must equal DFA acceptance; exhaustive per (regex, alphabet, length) unless "
                "the node budget truncates (counted); (2) long positive samples drawn from the DFA and single-edit negatives, byte by byte; "
                "(3) V-loops over Vsyn/Vbpe: mask[t] == live(delta*(q, bytes(t))) for every token. evaluations = (state, next byte) comparisons "
                "in the DFS. Non-trivial = regex with >=3 operators whose DFA has >=4 live states; distinct by grammar text.",
        "assumptions": ["ref_dfa is the oracle; it is itself cross-checked against the `regex` crate on the plain fragment (./check selftest)",
                        "byte 0xFF (special-token marker) is excluded from comparisons"],
        "quick": {"runs": [q(deadline=45)], "floor": {"cases": 800, "distinct_nontrivial": 300, "dfs_nodes": 50000, "vloop_token_checks": 200000}},
        "thorough": {"runs": [q(deadline=600, watchdog=3600)], "floor": {"cases": 15000, "distinct_nontrivial": 5000}},
    },
    "C05": {
        "eval_counter": "mask_bytes_compared",
        "case_counter": "cases",
        "rule": "case = context-free grammar in Lark syntax over non-confusable terminals (literals with pairwise different first bytes, "
                "disjoint single-byte classes): random EBNF (empty productions, left/right/mutual recursion, ambiguity, ? * + {m,n}, groups), "
                "hand-written (arithmetic, brackets, a^n b^n, hidden left recursion, ambiguous), parametric templates (permutations, "
                "at-least-once, bounded counters, pick m..n, a*b* with length bound). Oracle = byte-level Earley recogniser on the harness's "
                "own plain-BNF copy (EBNF lowered, parametric rules expanded over reachable (rule, value) pairs). DFS over ALL byte strings "
                "over the grammar's alphabet (<=6 bytes) up to length 6 (quick) / 8 (thorough): full 255-byte single-byte mask == reference "
                "next-byte set, is_accepting == derivability; plus long run-preferring walks (<=70 bytes, wide {m,n} repetitions reach their ends) with the full mask compared at every prefix, long sentences byte by byte and V-loops over a grammar-specific "
                "multi-byte vocabulary (mask[t] == prefix+bytes(t) viable). evaluations = (state, next byte) comparisons in the DFS. "
                "Non-trivial = grammar whose DFS visited >=8 viable prefixes and >=1 complete string; distinct by grammar text.",
        "assumptions": ["ref_earley is the oracle (textbook algorithm, nullable handling by Aycock-Horspool)",
                        "grammars with unproductive reachable symbols are tagged `unproductive` and judged separately"],
        "quick": {"runs": [q(deadline=45)], "floor": {"cases": 800, "distinct_nontrivial": 300, "dfs_nodes": 50000, "vloop_token_checks": 50000}},
        "thorough": {"runs": [q(deadline=600, watchdog=3600)], "floor": {"cases": 15000, "distinct_nontrivial": 5000}},
    },
    "C09": {
        "eval_counter": "count_probes",
        "case_counter": "grammars",
        "rule": "EXHAUSTIVE enumeration of all 0<=m<=n<=N (N=18 quick / 66 thorough for Lark, 13 / 50 for JSON; crosses n=12 and every "
                "multiple of 4) plus {m,} * + ?, for each of: rule-level x{m,n} (with and without delimiters), terminal-level, regex-level "
                "(inline /../ and from_regex) over the elements \"a\", \"ab\", (\"a\"|\"b\"), /[a-c]/; JSON min/maxItems (items and "
                "prefixItems+items), min/maxLength (1..4-byte characters, escapes, \\uXXXX incl. surrogate pairs with the option, with "
                "pattern), min/maxProperties over additionalProperties. For every count c in 0..n+3 on the single-byte vocabulary: the "
                "closer (or is_accepting) is allowed iff m<=c<=n, the next element iff c<n, and every byte of an allowed element is then "
                "accepted. Elements that can be empty (\"a\"?, [\"ab\"], \"a\"{0,2}), also with the repetition used from two places: every "
                "size 0..n*max is derivable whatever m is. evaluations = (grammar, count) probes. Non-trivial = grammar with n>=1; distinct by (form, m, n).",
        "assumptions": ["single-byte vocabulary: the mask is the next-byte set"],
        "quick": {"runs": [q(deadline=60)], "floor": {"grammars": 3000, "distinct_nontrivial": 2500, "count_probes": 40000}},
        "thorough": {"runs": [q(deadline=600, watchdog=3600)], "floor": {"grammars": 20000, "distinct_nontrivial": 15000}},
    },
    "C08": {
        "eval_counter": "literal_probes",
        "case_counter": "schemas",
        "rule": "EXHAUSTIVE grid: all integer bound pairs (a,b) in [-W,W]^2 with b>=a-2 (W=22 quick; W=150 thorough, thinned away from the "
                "diagonal) x {inclusive,exclusive}^2 x {integer,number} x multipleOf in {none, 1,2,3,5,7,10, 0.5,0.25,0.1,0.01,2.5} (rotating "
                "subset per pair); one-sided bounds; all ordered pairs of 18 decimal bounds with <=3 fraction digits x multipleOf "
                "{none,0.1,0.25,0.01,1}; magnitudes 10^k+-1 for k<=18. For each schema: compile error <=> exact emptiness, and for every "
                "plain decimal literal in and around the interval (all integers within +-12 of each bound, decimals at +-10^-1..-4 and "
                "+-5*10^-1..-4 of each bound, trailing-zero forms, exact multiples near the bounds) single-byte acceptance <=> the exact "
                "predicate evaluated on the decimal texts; malformed JSON numbers (leading zeros, bare '.', '+') must be rejected. "
                "`5.0` under an integer schema is logged as unspecified and excluded. evaluations = literal probes. Non-trivial = schema with "
                "a bound and at least one literal inside; distinct by schema text.",
        "assumptions": ["exact decimal arithmetic of the harness (ref_json::Dec, i128) is the oracle; bounds and literals are compared as texts, never as floats"],
        "quick": {"runs": [q(deadline=60)], "floor": {"schemas": 20000, "distinct_nontrivial": 8000, "literal_probes": 500000}},
        "thorough": {"runs": [q(deadline=960, watchdog=5400)], "floor": {"schemas": 300000, "distinct_nontrivial": 100000}},
    },
    "C06": {
        "eval_counter": "outputs_judged",
        "case_counter": "schemas",
        "rule": "case = random schema over the documented keyword set (type, enum, const, anyOf, allOf, oneOf, $ref incl. recursive, items, "
                "prefixItems, min/maxItems, properties, required, additionalProperties, patternProperties, min/maxProperties, min/maxLength, "
                "pattern, format, numeric bounds, multipleOf, x-guidance options; 1/12 with an unsupported keyword) or a corpus schema, "
                "vocabulary V1|Vsyn|Vbpe. (1) complete outputs are produced by extending-then-closing walks through the masks and judged: "
                "strict RFC 8259 parse, then the harness validator (exact decimals, duplicate-key aware, formats from the RFCs) with the "
                "jsonschema crate as second opinion (disagreement on non-numeric keywords => inconclusive, logged); (2) directed negative "
                "probes: constructive instances are mutated (numbers, strings, arrays, keys, duplicated declared keys) and every mutant "
                "judged invalid must NOT be accepted as a complete string. evaluations = outputs judged. Non-trivial = validated output of "
                "a schema using >=3 keyword kinds; distinct by (schema, output).",
        "assumptions": ["ref_json validator decides numeric keywords and duplicate keys; jsonschema 0.29 is the second opinion elsewhere",
                        "hostname total-length limit is not asserted by the oracle"],
        "quick": {"runs": [q(deadline=50)], "floor": {"schemas": 1200, "outputs_judged": 8000, "distinct_nontrivial": 1500, "negative_probes_invalid": 1000}},
        "thorough": {"runs": [q(deadline=720, watchdog=5400)], "floor": {"schemas": 30000, "outputs_judged": 300000}},
    },
    "C07": {
        "eval_counter": "tokens_fed",
        "case_counter": "schemas",
        "rule": "case = random schema of the fully supported subset (type, enum, const, anyOf, $ref incl. recursive, items, prefixItems, "
                "min/maxItems, properties, required, additionalProperties, min/maxLength, numeric bounds, integer multipleOf) with one of five "
                "whitespace/separator option sets, and constructive instances (edge-biased numbers, strings with multi-byte characters / quotes / "
                "control characters, optional properties in schema order, additional keys last) that BOTH validators accept. Each instance is "
                "serialised the standard way (serde_json string/number forms; compact, or with the whitespace the option permits), tokenised "
                "by the environment's tokenizer / greedily / by a random segmentation over V1, Vsyn or Vbpe and fed: every token must be in "
                "the mask at its step (non-canonical tokenizers) and commit, validate_tokens(all)==len, and the end state must be accepting. "
                "evaluations = tokens fed. Non-trivial = accepted instance of >=4 tokens; distinct by (schema, text, vocabulary).",
        "assumptions": ["instances are only used when the harness validator and the jsonschema crate both accept them"],
        "quick": {"runs": [q(deadline=50)], "floor": {"schemas": 1500, "instances": 6000, "distinct_nontrivial": 2500}},
        "thorough": {"runs": [q(deadline=720, watchdog=5400)], "floor": {"schemas": 30000, "instances": 150000}},
    },
    "C03": {
        "eval_counter": "states",
        "case_counter": "cases",
        "rule": "case = productive grammar (regex with non-empty reference language; CFG whose reference BNF needed no pruning; JSON schema "
                "family stressing numeric ranges / multipleOf / length bounds / formats / allOf intersections / unsatisfiable optional "
                "sub-schemas; random schemas) x byte-complete vocabulary (V1, Vsyn, Vbpe) x extending-then-closing walk through the masks. "
                "Direct monitor at every visited state: an empty mask, a NoExtensionBias / NoExtension stop in a non-accepting state, a mask "
                "failure that is not a documented resource stop, or a rejected masked token is a violation. Exact monitor where a reference "
                "model exists: the byte history must be a live prefix of the reference DFA / viable in the reference Earley recogniser. "
                "Liveness half restated as bounded progress: from the last state a closing roll-out must reach an accepting stop within 400 "
                "steps (success counted as witness, failure counted as inconclusive roll-out, never as a violation). evaluations = states "
                "monitored. Non-trivial = walk of >=3 tokens; distinct by (grammar, history, vocabulary). The JSON family includes a length "
                "bound next to the length a pattern implies at several magnitudes (3..700; one below, equal, one above = unsatisfiable), "
                "as an optional property / second tuple item, compact and with flexible whitespace.",
        "assumptions": ["TokenParser API used directly so that the precise StopReason is visible"],
        "quick": {"runs": [q(deadline=50)], "floor": {"cases": 2500, "states": 20000, "distinct_nontrivial": 1500, "reference_liveness_checks": 5000}},
        "thorough": {"runs": [q(deadline=720, watchdog=5400)], "floor": {"cases": 50000, "states": 600000}},
    },
    "C16": {
        "post": post_c16,
        "eval_counter": "tokens_compared",
        "case_counter": "cases",
        "rule": "model-based scenarios, even idx = trie, odd idx = token set. Trie: random vocabulary (2..8 letter alphabets so tokens chain "
                "as prefixes, duplicates under two ids, empty entries, 256-way fan-out, tokens up to 300 bytes, marker-prefixed tokens); "
                "token/token_id/token_id_at_bytes/token_len/prefix_token_id/all_prefixes/all_subtokens/has_extensions/greedy_tokenize "
                "against a Vec<Vec<u8>> model; add_bias and has_valid_extensions with random table-driven DFAs (own Recognizer with a "
                "stack monitor: no underflow, depth back to 0 at trie_finished, depth <= longest token) and random start prefixes against "
                "per-token evaluation; filter(m) vs from(filtered words); every returned mask checked on the RAW words for bits >= vocab. "
                "Token set: random programs of set/allow_range/negated/or/and/sub/or_minus/set_all/resize/trim_trailing_zeros/... on sizes "
                "0,1,31,32,33,63,64,65,...,1000 against a BTreeSet, observed after every op through to_list/iter/num_set/first_bit_set/"
                "iter_unset_entries/iter_entries/get/write_to and raw words. Adapters: synthetic byte-level and byte-fallback "
                "tokenizer.json (all 256 byte code points through an independently coded bytes<->unicode table, <0xNN>, replaced space, "
                "special / non-special added tokens) through toktrie_hf_tokenizers and token_bytes_from_tokenizer_json; tiktoken ranks with "
                "holes; tokenize_bytes(text) concatenation == text for random text incl. invalid UTF-8. evaluations = (walk, token) "
                "comparisons of add_bias against the model. Non-trivial = walk whose mask has >=2 and <|V| tokens / token-set program on a "
                "size >=31 ending non-empty / adapter document; distinct by content hash.",
        "assumptions": ["asan / miri variants run the same scenarios (toktrie-only part under Miri)"],
        "quick": {"runs": [q(deadline=24), dict(q(deadline=15), variant="chk")], "floor": {"cases": 3000, "distinct_nontrivial": 1500, "add_bias_walks": 5000, "svob_checks": 10000, "tokenize_roundtrips": 1000, "miri.cases": 8}},
        "thorough": {"runs": [q(deadline=360, watchdog=3600), dict(q(deadline=240, watchdog=3600), variant="chk"), dict(q(deadline=240, watchdog=3600), variant="asan")],
                     "floor": {"cases": 100000, "distinct_nontrivial": 30000}},
    },
    "C17": {
        "worker_death": asan_death,
        "eval_counter": "mask_comparisons",
        "case_counter": "cases",
        "rule": "case = (vocabulary size in {224,255,256,257,288,511,512,513,1001}, grammar, walk); even idx: llg_new_constraint_any / "
                "llg_compute_mask / llg_commit_token / llg_clone_constraint / llg_par_compute_mask mirrored step by step on a Rust "
                "Constraint built from the same factory inputs (masks word by word, is_stop, commit status, returned tokens, is_stopped), "
                "with ~8% illegal tokens (out of range, not in mask); llg_par_compute_mask is given destination buffers of many lengths "
                "(random multiples of 4 bytes from 0 to mask+32, plus mask and mask+4) each with 64-byte canaries before and after and "
                "pre-filled with 0xAA: canaries intact, prefix == Rust mask, tail zero-filled, no bit >= vocab. Odd idx: llg_matcher_* "
                "mirrored on a Rust Matcher (compute_mask_into with exact and wrong sizes, compute_mask/get_mask, is_accepting, is_stopped, "
                "validate_tokens, compute_ff_tokens into short guarded buffers, rollback, consume). Every fifth case drives the auxiliary functions "
                "(mon_c17_aux): llg_new_tokenizer / _v2 (several EOS ids, truncated and oversized struct_size, refused inits with error "
                "buffers of 1..128 bytes), a callback tokenizer (tokenize_fn with a harness model that differs from greedy; capacities "
                "offered to the callback recorded, second pass observed), llg_tokenize_bytes(_marker) / llg_decode_tokens (all flag "
                "sets) / llg_stringify_tokens into canary-guarded buffers of every length around the result (count independent of the "
                "buffer, prefix == Rust result, NUL terminator, out-of-range ids), llg_clone_tokenizer with the original freed first, "
                "llg_new_constraint_{lark,regex,json} / _any / llg_new_constraint(serialised grammar) in lock-step, llg_validate_grammar "
                "message buffers, llg_get_temperature, llg_clone_matcher (clones checked after the original moved on), "
                "llg_matcher_consume_tokens (valid batch, sometimes ending in a bad id), llg_matcher_reset, llg_matcher_get_error, and "
                "llg_new_stop_controller / llg_stop_commit_token / llg_clone_stop_controller vs the Rust StopController. The same workload is run under "
                "AddressSanitizer (variant asan) so that reads outside the engine's own mask abort the worker. evaluations = mask "
                "comparisons C vs Rust. Non-trivial = case with >=2 committed tokens; distinct by (grammar, history, vocabulary size, api).",
        "assumptions": ["the C functions are called from Rust (no C compiler in the loop); Miri cannot cross a real C boundary"],
        "quick": {"runs": [q(deadline=30), dict(q(deadline=40, watchdog=900), variant="asan", env=ASAN_ENV)],
                  "floor": {"cases": 500, "mask_comparisons": 3000, "par_buffers_checked": 5000, "distinct_nontrivial": 300, "aux_cases": 100,
                            "tokenize_buffers_checked": 5000, "decode_buffers_checked": 5000, "callback_second_pass_observed": 200,
                            "stop_commits_compared": 5000, "stop_controller_stops": 1000, "clone_mask_comparisons": 200, "consume_tokens_comparisons": 200}},
        "thorough": {"runs": [q(deadline=360, watchdog=3600), dict(q(deadline=480, watchdog=3600), variant="asan", env=ASAN_ENV)],
                     "floor": {"cases": 20000, "mask_comparisons": 200000}},
    },
    "C14": {
        "eval_counter": "interleaved_op_checks",
        "case_counter": "enum_cases",
        "rule": "three workloads. (1) exhaustive schedule enumeration on one thread: 2 or 3 clones of a non-initial base engine (shallow = "
                "shared lexer mutex, deep, mixed) get private op lists (mask / commit / validate / rollback / ff tokens / ff bytes / "
                "is_accepting; tokens resolved against a private deep reference); ALL interleavings of the op lists (2x4: 70, 2x5: 252, "
                "3x3: 1680; 3+3+2 in quick) are executed and every result must equal the private reference result. (2) real OS threads: "
                "2..16 clones (some taken before the shared lexer grew) run their op lists concurrently behind a barrier; hook H1 injects "
                "seeded yields and short sleeps before taking / after releasing the shared-lexer mutex and records the order of lock owners; "
                "every logged result is checked offline against the private reference. (3) llg_par_compute_mask (rayon) over 2..16 cloned "
                "constraints driven to different histories vs sequential Rust masks. evaluations = op results compared under enumerated "
                "interleavings. Non-trivial = enumeration case with a mask op and >=2 committing clones / thread run whose lock-owner "
                "sequence shows >=2 owner switches (distinct by that sequence) / par batch. Every private reference is an engine built from a "
                "factory of its own that replays the base history (no slicer, lexer table or cache shared with the clones under test); "
                "half of the clones are deep clones.",
        "assumptions": ["API calls on shallow clones are atomic w.r.t. the shared lexer (one mutex), so single-thread interleavings of whole calls cover the reachable schedules at call granularity",
                        "thorough adds a ThreadSanitizer build (-Zsanitizer=thread -Zbuild-std) of the thread workload"],
        "quick": {"runs": [q(deadline=45)], "floor": {"enum_cases": 100, "interleavings_executed": 10000, "thread_cases": 100, "threaded_op_checks": 5000, "lock_owner_switches": 200, "par_masks_checked": 500, "distinct_nontrivial": 150}},
        "thorough": {"runs": [q(deadline=480, watchdog=3600), dict(q(deadline=240, watchdog=5400), variant="tsan", args=["--mode", "threads"], env={"TSAN_OPTIONS": "halt_on_error=1:exitcode=66"})],
                     "floor": {"enum_cases": 3000, "thread_cases": 3000}},
    },
    "C15": {
        "eval_counter": "sequences_compared",
        "case_counter": "optimisations_observed",
        "rule": "every grammar of the workload (corpus, random CFGs incl. parametric templates, random JSON schemas, regexes, and 10 "
                "hand-written shapes with single-rule chains / captures / max_tokens / nested %json / stop= / parametric chains) is compiled "
                "through the real entry point with hook H2 installed; the hook delivers the rule table before and after Grammar::optimize(). "
                "Oracle: the set of ALL terminal-id sequences of length <= L (L=6, lowered to 5,4,3 when a set exceeds 20000 sequences; "
                "below that the case is inconclusive) derivable from the start symbol, computed independently by Kleene iteration over "
                "reachable (symbol, parameter value) pairs, with capture / stop-capture / max_tokens symbols kept as bracket pseudo-terminals "
                "and sub-grammar symbols as opaque leaves, must be identical before and after; and the sorted list of special-symbol tags "
                "reachable from the start symbol must be identical. evaluations = sequences in the compared bounded languages. "
                "Non-trivial = optimisation that removed >=1 rule-bearing symbol on a grammar with >=2 sequences; distinct by grammar.",
        "assumptions": ["lexeme indices are unchanged by optimisation (same LexerSpec), so terminals are compared by index"],
        "quick": {"runs": [q(deadline=45)], "floor": {"optimisations_observed": 1500, "optimisations_that_removed_symbols": 500, "distinct_nontrivial": 200, "sequences_compared": 20000}},
        "thorough": {"runs": [q(deadline=480, watchdog=3600)], "floor": {"optimisations_observed": 30000}},
    },
    "C18": {
        "eval_counter": "stop_decisions_checked",
        "case_counter": "matcher_cases",
        "rule": "four workloads by idx mod 4 (one case in four on a vocabulary with 2-3 EOS ids). Matcher: walk through the masks; after every commit the stop status is compared with a "
                "reference TokenParser driven WITHOUT check_stop (stop due <=> accepting and no non-EOS token in its mask), EOS commit in an "
                "accepting state must stop with EndOfSentence; at the stop the decoded text must be a complete string for an independent "
                "single-byte engine, no token is accepted any more, compute_mask fails and compute_mask_or_eos is exactly {EOS}; illegal "
                "calls (token outside the mask, id >= vocab) are issued on clones: they must fail and either fail for good or leave the "
                "clone answering exactly like the untouched engine. Constraint (with / without ff_tokens): sampling loop with out-of-order "
                "commits and tokens outside the mask on clones, stop latched and sticky, text at stop complete; one Constraint case in three "
                "runs under tight per-step limits (step_max_items 3..400, step_lexer_fuel 20..20000): a mask or commit that runs out of "
                "budget must surface as an error that stays one (no token taken, no stop announced afterwards), and every stop that IS "
                "announced is still judged against the byte engine with default limits. StopController (Rust and "
                "through the same object used by llg_stop_commit_token): random stop tokens / literal stop strings / stop regex (reference "
                "DFA) over token streams that split stops across tokens, overlap candidates, contain multi-byte characters and special "
                "tokens; model = earliest match end per segment between special tokens; the concatenated returns must equal the text before "
                "the first stop, nothing after it, stopped flag in step with the model, no U+FFFD for valid text, withheld tail <= longest "
                "stop + 3 bytes. evaluations = stop decisions compared. Non-trivial = run that reached a stop; distinct by (grammar or stop "
                "spec, history).",
        "assumptions": ["cases where several stop matches of different lengths end at the same earliest position are skipped (ambiguous exclusion length)"],
        "quick": {"runs": [q(deadline=45)], "floor": {"matcher_cases": 500, "constraint_cases": 500, "stop_cases": 1000, "stopped_runs": 800, "illegal_calls": 300, "distinct_nontrivial": 600, "tight_limit_cases": 150, "tight_limit_errors_reported": 5}},
        "thorough": {"runs": [q(deadline=480, watchdog=3600)], "floor": {"matcher_cases": 10000, "stop_cases": 20000}},
    },
    "C19": {
        "eval_counter": "special_ids_checked",
        "case_counter": "text_cases",
        "rule": "three workloads. (a) text grammars (literals / regexes / JSON keys and enum values that spell special-token names such as "
                "<a>, <|end|>, <think>; `.`-style catch-alls; %ignore; negated classes; guarded and unguarded ~) over vocabularies whose "
                "specials are named <a>, <b>, <ab>, <|tool|>, <think>, </think>, <\"x\">, <1>, <x>, <|end|>: at every state of a walk no "
                "special id may be in the mask (EOS only when accepting), the bare marker token never, and validate/commit on clones must "
                "refuse specials. (b) grammars generated from a harness-side model `\"q\" A \"w\" B \"k\" | ...` with A,B drawn from <name>, "
                "<[id]>, <[a-b,...]>, <[^...]>, <[*]> (ids near 0, 31/32/33, 255/256, vocab-2, vocab-1; later list entries derived from earlier ones: adjacent single id, adjacent range, overlap extending by one, nested, duplicate, shuffled): at each token position the mask "
                "must equal exactly the union of the sets denoted by the alternatives still consistent with the history (all ids compared), "
                "at text positions exactly the literal's byte token, and validate/commit must agree on probes at the range ends. "
                "(c) tokenisation: plain text spelling a special's name yields no special id and round-trips; \\xFF<name> and \\xFF[id] "
                "yield exactly that id, for the Approximate and tiktoken environments. evaluations = special ids checked against masks. "
                "Non-trivial = walk of >=2 tokens / token-reference grammar fully traversed; distinct by (grammar, history, vocabulary).",
        "assumptions": ["HF added-token matching inside plain text is adapter policy (excluded by the property text) and is not asserted"],
        "quick": {"runs": [q(deadline=45)], "floor": {"text_cases": 800, "ref_cases": 600, "positions_checked": 3000, "tokenize_checks": 300, "distinct_nontrivial": 900}},
        "thorough": {"runs": [q(deadline=480, watchdog=3600)], "floor": {"text_cases": 15000, "ref_cases": 10000}},
    },
    "C20": {
        "runner": c20_runner,
        "join": c20_join,
        "eval_counter": "cases",
        "case_counter": "cases",
        "rule": "case = hostile input of one of ~30 classes (random bytes; random Lark token soup; byte-level and JSON-tree mutations of the "
                "corpus; nesting to depth 10..100000 of ( ) [ ] ~ regex groups allOf items; minItems/maxItems/minLength/maxLength/"
                "min/maxProperties and regex / Lark repeat counts up to 2^32 and 2^64-1; nested {n}{n}; multipleOf pairs whose lcm "
                "overflows u32; numeric extremes; 1 MB literal (100 kB in the quick tier); 20000 properties; raw token-id ranges whose ends sit at 0, 31/32, 255/256, vocab-2 .. vocab+1, 2^31, 2^32-1, 2^32; $ref cycles and dangling refs; parametric conditions nested "
                "3000 deep and bit indices beyond 64; random slice lists; degenerate vocabularies), built under default or very tight "
                "limits, followed by 40 API calls (half of the cases start with 4-15 legal mask+commit steps so that deeper positions are reached; then random: mask, commit from the mask, arbitrary token ids incl. u32::MAX, validate, "
                "rollback, ff tokens). Each case runs on a 2 MiB-stack thread in a worker process with RLIMIT_AS 8 GiB and a 240 s "
                "per-case RLIMIT_CPU budget (40 s in the quick tier); a BEGIN/END journal attributes a dead worker to its case and the worker is restarted after "
                "it. Oracles: death by signal / abort / stack overflow / allocation failure => violation; panic during a LEGAL call on a "
                "built engine => violation; a failed engine answering a mask or accepting a token => violation; overflow oracle: the "
                "overflow-checks build panics with an arithmetic overflow on x while the release build returns a usable engine for x => "
                "violation. evaluations = cases. Non-trivial = case whose engine was built and driven; distinct by input.",
        "assumptions": ["wall-clock watchdog => inconclusive; CPU budget via RLIMIT_CPU (SIGXCPU => violation 'loops without bound')"],
        "quick": {"runs": [q(deadline=60, watchdog=900), dict(q(deadline=60, watchdog=900), variant="chk")], "floor": {"cases": 500, "engines_built": 150, "distinct_nontrivial": 100}},
        "thorough": {"runs": [q(deadline=600, watchdog=5400), dict(q(deadline=600, watchdog=5400), variant="chk"), dict(q(deadline=360, watchdog=5400), variant="asan", env=ASAN_ENV)],
                     "floor": {"cases": 4000, "engines_built": 1000, "distinct_nontrivial": 600}},
    },
}
