"""Per-property run configuration for ./check."""

REL = {"variant": "rel"}


def q(deadline=60, watchdog=600, **kw):
    d = dict(REL)
    d.update({"deadline": deadline, "watchdog": watchdog})
    d.update(kw)
    return d


PROPS = {
    "C01": {
        "eval_counter": "token_checks",
        "case_counter": "cases",
        "rule": "case = (grammar from corpus/generators, vocabulary V1|Vsyn|Vbpe, canonical flag, random walk with rollbacks); "
                "at every visited state the mask is compared token-by-token with validate_tokens([t]) on a deep clone and "
                "consume_token(t) on a shallow clone, EOS-in-mask with is_accepting, and validate_tokens(seq) with the number of tokens "
                "a clone commits one by one. evaluations = individual token comparisons. A state is non-trivial when its mask has "
                ">=2 and <|V| tokens and (for multi-byte vocabularies) at least one allowed multi-byte token; distinct by "
                "(grammar hash, token history hash, vocabulary name).",
        "assumptions": ["clone()/deep_clone() give independent engines (decided separately by C14)",
                        "a failing consume_token leaves the original (un-cloned) engine untouched because it is applied to a clone"],
        "quick": {"runs": [q(deadline=45)], "floor": {"states": 1500, "distinct_nontrivial": 300, "validate_seq_checks": 200}},
        "thorough": {"runs": [q(deadline=1500, watchdog=3600), dict(q(deadline=900, watchdog=3600), variant="chk")],
                     "floor": {"states": 20000, "distinct_nontrivial": 3000}},
    },
    "C11": {
        "eval_counter": "fresh_query_checks",
        "case_counter": "cases",
        "rule": "case = (grammar incl. a 'twin prefix' family where two different prefixes return to the same Earley row index and lexer "
                "state, vocabulary, random program of commits / rollbacks / resets with read-only queries in seeded random order); at every "
                "state: mask twice, mask after invalidate_bias_cache, and every query (mask, is_accepting, ff bytes, ff tokens, stop status) "
                "against a *fresh* engine that replayed the same tokens and is asked only that query. evaluations = query comparisons "
                "against fresh engines. Non-trivial = state compared after the bias cache reported >=1 real hit (hook counter H3) with a "
                "mask of >=2 and <|V| tokens; distinct by (grammar, history, vocabulary).",
        "assumptions": ["a freshly built engine replaying the same tokens is the reference for 'no trace left'"],
        "quick": {"runs": [q(deadline=45)], "floor": {"states": 800, "distinct_nontrivial": 100, "bias_cache_hits_observed": 200}},
        "thorough": {"runs": [q(deadline=1200, watchdog=3600)], "floor": {"states": 15000, "distinct_nontrivial": 2000}},
    },
    "C12": {
        "eval_counter": "observable_checks",
        "case_counter": "cases",
        "rule": "case = random program over {commit k tokens, run to completion, commit EOS, rollback j (1..history), reset}; after every "
                "rollback the engine is compared with a fresh replay engine on mask, accepting, forced bytes/tokens, stop status and "
                "validate_tokens probes, and then both are driven in lock-step comparing every mask. evaluations = observable comparisons. "
                "Non-trivial = rollback of >=2 tokens, or out of a stopped state, or over an EOS; distinct by (grammar, program, vocabulary).",
        "assumptions": ["fresh replay engine is the reference for 'never saw those k tokens'"],
        "quick": {"runs": [q(deadline=45)], "floor": {"rollbacks": 800, "distinct_nontrivial": 200, "lockstep_masks": 1500}},
        "thorough": {"runs": [q(deadline=1200, watchdog=3600), dict(q(deadline=600, watchdog=3600), variant="chk")],
                     "floor": {"rollbacks": 15000, "distinct_nontrivial": 3000}},
    },
}
