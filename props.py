"""Per-property run configuration for ./check."""

REL = {"variant": "rel"}


def q(deadline=60, watchdog=600, **kw):
    d = dict(REL)
    d.update({"deadline": deadline, "watchdog": watchdog})
    d.update(kw)
    return d


PROPS = {
    "C01": {
        "eval_counter": "token_checks",
        "case_counter": "cases",
        "rule": "case = (grammar from corpus/generators, vocabulary V1|Vsyn|Vbpe, canonical flag, random walk with rollbacks); "
                "at every visited state the mask is compared token-by-token with validate_tokens([t]) on a deep clone and "
                "consume_token(t) on a shallow clone, EOS-in-mask with is_accepting, and validate_tokens(seq) with the number of tokens "
                "a clone commits one by one. evaluations = individual token comparisons. A state is non-trivial when its mask has "
                ">=2 and <|V| tokens and (for multi-byte vocabularies) at least one allowed multi-byte token; distinct by "
                "(grammar hash, token history hash, vocabulary name).",
        "assumptions": ["clone()/deep_clone() give independent engines (decided separately by C14)",
                        "a failing consume_token leaves the original (un-cloned) engine untouched because it is applied to a clone"],
        "quick": {"runs": [q(deadline=45)], "floor": {"states": 1500, "distinct_nontrivial": 300, "validate_seq_checks": 200}},
        "thorough": {"runs": [q(deadline=1500, watchdog=3600), dict(q(deadline=900, watchdog=3600), variant="chk")],
                     "floor": {"states": 20000, "distinct_nontrivial": 3000}},
    },
}
