#!/bin/sh
# MANIFEST.setup_cmd: build the harness variants from files on disk only (offline).
set -e
cd "$(dirname "$0")"
export CARGO_NET_OFFLINE=true
[ -f harness/Cargo.lock ] || cp /repo/Cargo.lock harness/Cargo.lock
[ -f harness_tt/Cargo.lock ] || cp /repo/Cargo.lock harness_tt/Cargo.lock
cd harness
CARGO_TARGET_DIR=target-rel cargo build --release --offline
echo "setup: rel variant built"
RUSTFLAGS="-C overflow-checks=on -C debug-assertions=on" CARGO_TARGET_DIR=target-chk cargo build --release --offline
echo "setup: chk variant built"
RUSTFLAGS="-Zsanitizer=address -Cforce-frame-pointers=yes" CARGO_TARGET_DIR=target-asan cargo +nightly build --release --offline --target x86_64-unknown-linux-gnu
echo "setup: asan variant built"
cd ../harness_tt
MIRIFLAGS="-Zmiri-disable-isolation" CARGO_TARGET_DIR=target-miri cargo +nightly miri run --offline -- 1 0 0 >/dev/null
echo "setup: miri crate built"
