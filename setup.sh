#!/bin/sh
# MANIFEST.setup_cmd: build the harness variants from files on disk only (offline).
set -e
cd "$(dirname "$0")"
export CARGO_NET_OFFLINE=true
[ -f harness/Cargo.lock ] || cp /repo/Cargo.lock harness/Cargo.lock
cd harness
CARGO_TARGET_DIR=target-rel cargo build --release --offline
echo "setup: rel variant built"
